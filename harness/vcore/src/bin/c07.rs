//! C07 — exhaustiveness and usefulness analysis of patterns is exact.
//! Monitor: generated type declarations + pattern matrices are type checked by the REAL front end;
//! the diagnostics are compared with a brute-force oracle (enumerate all values of the scrutinee
//! type up to pattern depth + 1, run a tiny matcher over them).  Accepted matches are also executed
//! (reference interpreter, and a share through the emitted WasmGC module) and every arm index that
//! is printed is compared with the oracle's first matching arm.
//!
//! `c07 quick|thorough` runs the check; `c07 probe <file.sam>` is a debugging aid (checks a file as
//! module `T`, prints diagnostics, runs it through both executors).
//! Env `C07_SELFTEST=1` breaks the oracle on purpose (or-patterns match nothing): must exit 1.
use samlang_heap::Heap;
use serde_json::json;
use std::collections::{BTreeMap, BTreeSet, HashMap, HashSet};
use std::panic::AssertUnwindSafe;
use std::sync::OnceLock;
use vcore::evidence::{Run, env_seed, env_tier, hash_str};
use vcore::front::{self, Project};
use vcore::rng::Rng;
use vcore::trace::{Ending, Limits};

// ------------------------------------------------------------------------------------------------
// types, declarations
// ------------------------------------------------------------------------------------------------

#[derive(Clone, Debug, PartialEq, Eq, Hash, PartialOrd, Ord)]
enum Ty {
  Int,
  Bool,
  Var(usize),
  Cls(usize, Vec<Ty>),
  Tup(Vec<Ty>),
}

#[derive(Clone, Debug, PartialEq)]
enum Kind {
  Enum(Vec<(String, Vec<Ty>)>),
  Struct(Vec<(String, Ty)>),
}

#[derive(Clone, Debug, PartialEq)]
struct Class {
  name: String,
  nparams: usize,
  kind: Kind,
}

const TP: [&str; 2] = ["T", "U"];
const TUPLE_NAMES: [&str; 5] = ["", "", "Pair", "Triple", "Tuple4"];
const VAL_CAP: u64 = 2000;

fn tys_str(d: &[Class], ts: &[Ty]) -> String {
  ts.iter().map(|t| ty_str(d, t)).collect::<Vec<_>>().join(", ")
}

fn ty_str(d: &[Class], t: &Ty) -> String {
  match t {
    Ty::Int => "int".into(),
    Ty::Bool => "bool".into(),
    Ty::Var(i) => TP[*i].into(),
    Ty::Cls(c, a) if a.is_empty() => d[*c].name.clone(),
    Ty::Cls(c, a) => format!("{}<{}>", d[*c].name, tys_str(d, a)),
    Ty::Tup(ts) => format!("{}<{}>", TUPLE_NAMES[ts.len()], tys_str(d, ts)),
  }
}

fn class_str(d: &[Class], c: &Class) -> String {
  let tps = match c.nparams {
    0 => "",
    1 => "<T>",
    _ => "<T, U>",
  };
  let body = match &c.kind {
    Kind::Enum(vs) => vs
      .iter()
      .map(|(n, ps)| if ps.is_empty() { n.clone() } else { format!("{}({})", n, tys_str(d, ps)) })
      .collect::<Vec<_>>()
      .join(", "),
    Kind::Struct(fs) => fs.iter().map(|(n, t)| format!("val {}: {}", n, ty_str(d, t))).collect::<Vec<_>>().join(", "),
  };
  format!("class {}{}({}) {{}}", c.name, tps, body)
}

fn subst(t: &Ty, targs: &[Ty]) -> Ty {
  match t {
    Ty::Var(i) => targs.get(*i).cloned().unwrap_or(Ty::Int),
    Ty::Cls(c, a) => Ty::Cls(*c, a.iter().map(|x| subst(x, targs)).collect()),
    Ty::Tup(ts) => Ty::Tup(ts.iter().map(|x| subst(x, targs)).collect()),
    _ => t.clone(),
  }
}

/// variants of an enum class type, instantiated
fn variants(d: &[Class], t: &Ty) -> Option<Vec<(String, Vec<Ty>)>> {
  if let Ty::Cls(c, targs) = t {
    if let Kind::Enum(vs) = &d[*c].kind {
      return Some(vs.iter().map(|(n, ps)| (n.clone(), ps.iter().map(|p| subst(p, targs)).collect())).collect());
    }
  }
  None
}

/// fields of a struct class type or a tuple type, instantiated
fn fields(d: &[Class], t: &Ty) -> Option<Vec<(String, Ty)>> {
  match t {
    Ty::Cls(c, targs) => match &d[*c].kind {
      Kind::Struct(fs) => Some(fs.iter().map(|(n, ft)| (n.clone(), subst(ft, targs))).collect()),
      _ => None,
    },
    Ty::Tup(ts) => Some(ts.iter().enumerate().map(|(i, t)| (format!("e{i}"), t.clone())).collect()),
    _ => None,
  }
}

// ------------------------------------------------------------------------------------------------
// values
// ------------------------------------------------------------------------------------------------

#[derive(Clone, Debug, PartialEq)]
enum Val {
  Int(i64),
  Bool(bool),
  Ctor { ty: Ty, name: String, args: Vec<Val> },
  Rec { ty: Ty, fields: Vec<Val> },
}

fn vals_str(d: &[Class], vs: &[Val]) -> String {
  vs.iter().map(|v| val_str(d, v)).collect::<Vec<_>>().join(", ")
}

/// the samlang expression that constructs the value (explicit type arguments everywhere)
fn val_str(d: &[Class], v: &Val) -> String {
  let targs = |t: &Ty| match t {
    Ty::Cls(_, a) if !a.is_empty() => format!("<{}>", tys_str(d, a)),
    _ => String::new(),
  };
  match v {
    Val::Int(i) => i.to_string(),
    Val::Bool(b) => b.to_string(),
    Val::Ctor { ty, name, args } => {
      let Ty::Cls(c, _) = ty else { return "?".into() };
      format!("{}.{}{}({})", d[*c].name, name, targs(ty), vals_str(d, args))
    }
    Val::Rec { ty: ty @ Ty::Cls(c, _), fields } => format!("{}.init{}({})", d[*c].name, targs(ty), vals_str(d, fields)),
    Val::Rec { fields, .. } => format!("({})", vals_str(d, fields)),
  }
}

fn min_depth(d: &[Class], t: &Ty, visiting: &mut Vec<Ty>) -> Option<usize> {
  match t {
    Ty::Int | Ty::Bool | Ty::Var(_) => Some(0),
    _ => {
      if visiting.contains(t) {
        return None;
      }
      visiting.push(t.clone());
      let all = |ps: &[Ty], visiting: &mut Vec<Ty>| -> Option<usize> {
        let mut m = 0;
        for p in ps {
          m = m.max(min_depth(d, p, visiting)?);
        }
        Some(m + 1)
      };
      let r = if let Some(vs) = variants(d, t) {
        vs.iter().filter_map(|(_, ps)| all(ps, visiting)).min()
      } else {
        let fs: Vec<Ty> = fields(d, t).unwrap_or_default().into_iter().map(|(_, t)| t).collect();
        all(&fs, visiting)
      };
      visiting.pop();
      r
    }
  }
}

struct Env<'a> {
  d: &'a [Class],
  reps: HashMap<Ty, Val>,
}

impl<'a> Env<'a> {
  fn new(d: &'a [Class]) -> Env<'a> {
    Env { d, reps: HashMap::new() }
  }

  /// the shallowest inhabitant of a type (types are inhabited by construction)
  fn rep(&mut self, t: &Ty) -> Val {
    if let Some(v) = self.reps.get(t) {
      return v.clone();
    }
    let v = match t {
      Ty::Int | Ty::Var(_) => Val::Int(3),
      Ty::Bool => Val::Bool(false),
      _ => {
        if let Some(vs) = variants(self.d, t) {
          let mut best: Option<(usize, usize)> = None;
          for (i, (_, ps)) in vs.iter().enumerate() {
            let mut m = Some(0usize);
            for p in ps {
              m = match (m, min_depth(self.d, p, &mut vec![t.clone()])) {
                (Some(a), Some(b)) => Some(a.max(b)),
                _ => None,
              };
            }
            if let Some(m) = m {
              if best.is_none_or(|(_, bm)| m < bm) {
                best = Some((i, m));
              }
            }
          }
          let (i, _) = best.expect("uninhabited enum type");
          let args = vs[i].1.iter().map(|p| self.rep(p)).collect();
          Val::Ctor { ty: t.clone(), name: vs[i].0.clone(), args }
        } else {
          let fs = fields(self.d, t).unwrap_or_default();
          Val::Rec { ty: t.clone(), fields: fs.iter().map(|(_, ft)| self.rep(ft)).collect() }
        }
      }
    };
    self.reps.insert(t.clone(), v.clone());
    v
  }

  /// number of values `vals` would enumerate (saturating)
  fn count(&self, t: &Ty, depth: usize) -> u64 {
    const SAT: u64 = 1 << 40;
    if depth == 0 {
      return 1;
    }
    let prod = |ps: &[Ty]| ps.iter().fold(1u64, |a, p| a.saturating_mul(self.count(p, depth - 1)).min(SAT));
    match t {
      Ty::Int | Ty::Var(_) => 1,
      Ty::Bool => 2,
      _ => {
        if let Some(vs) = variants(self.d, t) {
          vs.iter().fold(0u64, |a, (_, ps)| a.saturating_add(prod(ps)).min(SAT))
        } else {
          let fs: Vec<Ty> = fields(self.d, t).unwrap_or_default().into_iter().map(|(_, t)| t).collect();
          prod(&fs)
        }
      }
    }
  }

  fn product(&mut self, ps: &[Ty], depth: usize) -> Vec<Vec<Val>> {
    let mut acc: Vec<Vec<Val>> = vec![vec![]];
    for p in ps {
      let vs = self.vals(p, depth);
      let mut next = Vec::with_capacity(acc.len() * vs.len());
      for a in &acc {
        for v in &vs {
          let mut a2 = a.clone();
          a2.push(v.clone());
          next.push(a2);
        }
      }
      acc = next;
    }
    acc
  }

  /// every value of `t` with all constructors enumerated down to `depth` levels; below the cut the
  /// shallowest inhabitant of the component type is used
  fn vals(&mut self, t: &Ty, depth: usize) -> Vec<Val> {
    if depth == 0 {
      return vec![self.rep(t)];
    }
    match t {
      Ty::Int | Ty::Var(_) => vec![Val::Int(3)],
      Ty::Bool => vec![Val::Bool(false), Val::Bool(true)],
      _ => {
        if let Some(vs) = variants(self.d, t) {
          let mut out = Vec::new();
          for (n, ps) in vs {
            for args in self.product(&ps, depth - 1) {
              out.push(Val::Ctor { ty: t.clone(), name: n.clone(), args });
            }
          }
          out
        } else {
          let fs: Vec<Ty> = fields(self.d, t).unwrap_or_default().into_iter().map(|(_, t)| t).collect();
          self.product(&fs, depth - 1).into_iter().map(|fields| Val::Rec { ty: t.clone(), fields }).collect()
        }
      }
    }
  }
}

// ------------------------------------------------------------------------------------------------
// patterns + the oracle's matcher
// ------------------------------------------------------------------------------------------------

#[derive(Clone, Debug, PartialEq)]
enum Pat {
  Wild,
  Var(String),
  Ctor(String, Vec<Pat>),
  Tup(Vec<Pat>),
  /// (field index, field name, None = shorthand binding the field name)
  Obj(Vec<(usize, String, Option<Pat>)>),
  Or(Vec<Pat>),
}

fn selftest() -> bool {
  static S: OnceLock<bool> = OnceLock::new();
  *S.get_or_init(|| std::env::var("C07_SELFTEST").map(|v| v == "1").unwrap_or(false))
}

/// THE ORACLE: does pattern `p` match value `v`?
fn pmatch(p: &Pat, v: &Val) -> bool {
  match (p, v) {
    (Pat::Wild | Pat::Var(_), _) => true,
    (Pat::Or(ps), _) => !selftest() && ps.iter().any(|q| pmatch(q, v)),
    (Pat::Ctor(n, ps), Val::Ctor { name, args, .. }) => {
      n == name && ps.len() == args.len() && ps.iter().zip(args).all(|(q, a)| pmatch(q, a))
    }
    (Pat::Tup(ps), Val::Rec { fields, .. }) => ps.len() == fields.len() && ps.iter().zip(fields).all(|(q, a)| pmatch(q, a)),
    (Pat::Obj(fs), Val::Rec { fields, .. }) => {
      fs.iter().all(|(i, _, sub)| *i < fields.len() && sub.as_ref().is_none_or(|q| pmatch(q, &fields[*i])))
    }
    _ => false,
  }
}

/// matcher for counterexample terms (never affected by the self-test switch)
fn tmatch(p: &Pat, v: &Val) -> bool {
  match (p, v) {
    (Pat::Wild | Pat::Var(_), _) => true,
    (Pat::Or(ps), _) => ps.iter().any(|q| tmatch(q, v)),
    (Pat::Ctor(n, ps), Val::Ctor { name, args, .. }) => {
      n == name && ps.len() == args.len() && ps.iter().zip(args).all(|(q, a)| tmatch(q, a))
    }
    (Pat::Tup(ps), Val::Rec { fields, .. }) => ps.len() == fields.len() && ps.iter().zip(fields).all(|(q, a)| tmatch(q, a)),
    _ => false,
  }
}

fn first_arm(rows: &[Pat], v: &Val) -> Option<usize> {
  rows.iter().position(|r| pmatch(r, v))
}

fn pdepth(p: &Pat) -> usize {
  match p {
    Pat::Wild | Pat::Var(_) => 0,
    Pat::Ctor(_, ps) | Pat::Tup(ps) => 1 + ps.iter().map(pdepth).max().unwrap_or(0),
    Pat::Obj(fs) => 1 + fs.iter().map(|(_, _, s)| s.as_ref().map_or(0, pdepth)).max().unwrap_or(0),
    Pat::Or(ps) => ps.iter().map(pdepth).max().unwrap_or(0),
  }
}

fn has_or(p: &Pat) -> bool {
  match p {
    Pat::Wild | Pat::Var(_) => false,
    Pat::Ctor(_, ps) | Pat::Tup(ps) => ps.iter().any(has_or),
    Pat::Obj(fs) => fs.iter().any(|(_, _, s)| s.as_ref().is_some_and(has_or)),
    Pat::Or(_) => true,
  }
}

fn has_obj(p: &Pat) -> bool {
  match p {
    Pat::Wild | Pat::Var(_) => false,
    Pat::Ctor(_, ps) | Pat::Tup(ps) | Pat::Or(ps) => ps.iter().any(has_obj),
    Pat::Obj(_) => true,
  }
}

fn pats_str(ps: &[Pat]) -> String {
  ps.iter().map(pat_str).collect::<Vec<_>>().join(", ")
}

fn pat_str(p: &Pat) -> String {
  match p {
    Pat::Wild => "_".into(),
    Pat::Var(x) => x.clone(),
    Pat::Ctor(n, ps) if ps.is_empty() => n.clone(),
    Pat::Ctor(n, ps) => format!("{}({})", n, pats_str(ps)),
    Pat::Tup(ps) => format!("({})", pats_str(ps)),
    Pat::Obj(fs) => format!(
      "{{ {} }}",
      fs.iter()
        .map(|(_, n, s)| match s {
          None => n.clone(),
          Some(q) => format!("{} as {}", n, pat_str(q)),
        })
        .collect::<Vec<_>>()
        .join(", ")
    ),
    Pat::Or(ps) => ps.iter().map(pat_str).collect::<Vec<_>>().join(" | "),
  }
}

/// flatten or-in-or (not expressible in the surface syntax), unwrap singleton or
fn normalise(p: Pat) -> Pat {
  match p {
    Pat::Ctor(n, ps) => Pat::Ctor(n, ps.into_iter().map(normalise).collect()),
    Pat::Tup(ps) => Pat::Tup(ps.into_iter().map(normalise).collect()),
    Pat::Obj(fs) => Pat::Obj(fs.into_iter().map(|(i, n, s)| (i, n, s.map(normalise))).collect()),
    Pat::Or(ps) => {
      let mut out = Vec::new();
      for q in ps {
        match normalise(q) {
          Pat::Or(qs) => out.extend(qs),
          q => out.push(q),
        }
      }
      if out.len() == 1 { out.pop().unwrap() } else { Pat::Or(out) }
    }
    p => p,
  }
}

/// struct patterns with their fields in declaration order
fn sort_obj(p: &Pat) -> Pat {
  match p {
    Pat::Ctor(n, ps) => Pat::Ctor(n.clone(), ps.iter().map(sort_obj).collect()),
    Pat::Tup(ps) => Pat::Tup(ps.iter().map(sort_obj).collect()),
    Pat::Or(ps) => Pat::Or(ps.iter().map(sort_obj).collect()),
    Pat::Obj(fs) => {
      let mut fs: Vec<_> = fs.iter().map(|(i, n, s)| (*i, n.clone(), s.as_ref().map(sort_obj))).collect();
      fs.sort_by_key(|x| x.0);
      Pat::Obj(fs)
    }
    _ => p.clone(),
  }
}

fn strip_bindings(p: &Pat) -> Pat {
  match p {
    Pat::Wild | Pat::Var(_) => Pat::Wild,
    Pat::Ctor(n, ps) => Pat::Ctor(n.clone(), ps.iter().map(strip_bindings).collect()),
    Pat::Tup(ps) => Pat::Tup(ps.iter().map(strip_bindings).collect()),
    Pat::Or(ps) => Pat::Or(ps.iter().map(strip_bindings).collect()),
    Pat::Obj(fs) => Pat::Obj(fs.iter().map(|(i, n, s)| (*i, n.clone(), Some(s.as_ref().map_or(Pat::Wild, strip_bindings)))).collect()),
  }
}

fn child<'p>(p: &'p Pat, i: usize) -> Option<&'p Pat> {
  match p {
    Pat::Ctor(_, ps) | Pat::Tup(ps) | Pat::Or(ps) => ps.get(i),
    Pat::Obj(fs) => fs.get(i).and_then(|(_, _, s)| s.as_ref()),
    _ => None,
  }
}

fn replace_at(p: &Pat, path: &[usize], new: &Pat) -> Pat {
  let Some((&i, rest)) = path.split_first() else { return new.clone() };
  let rep = |ps: &[Pat]| ps.iter().enumerate().map(|(k, q)| if k == i { replace_at(q, rest, new) } else { q.clone() }).collect::<Vec<_>>();
  match p {
    Pat::Ctor(n, ps) => Pat::Ctor(n.clone(), rep(ps)),
    Pat::Tup(ps) => Pat::Tup(rep(ps)),
    Pat::Or(ps) => Pat::Or(rep(ps)),
    Pat::Obj(fs) => Pat::Obj(
      fs.iter()
        .enumerate()
        .map(|(k, (fi, n, s))| {
          if k == i { (*fi, n.clone(), Some(replace_at(s.as_ref().unwrap_or(&Pat::Wild), rest, new))) } else { (*fi, n.clone(), s.clone()) }
        })
        .collect(),
    ),
    _ => p.clone(),
  }
}

/// all node paths in pre-order
fn all_paths(p: &Pat, cur: &mut Vec<usize>, out: &mut Vec<Vec<usize>>) {
  out.push(cur.clone());
  let n = match p {
    Pat::Ctor(_, ps) | Pat::Tup(ps) | Pat::Or(ps) => ps.len(),
    Pat::Obj(fs) => fs.len(),
    _ => 0,
  };
  for i in 0..n {
    if let Some(c) = child(p, i) {
      cur.push(i);
      all_paths(c, cur, out);
      cur.pop();
    }
  }
}

fn get_at<'p>(p: &'p Pat, path: &[usize]) -> Option<&'p Pat> {
  match path.split_first() {
    None => Some(p),
    Some((&i, rest)) => child(p, i).and_then(|c| get_at(c, rest)),
  }
}

/// the types of the children of a pattern node matched against type `t` (None = ill-typed)
fn child_types(d: &[Class], p: &Pat, t: &Ty) -> Option<Vec<Ty>> {
  match p {
    Pat::Ctor(n, _) => variants(d, t)?.into_iter().find(|(vn, _)| vn == n).map(|(_, ps)| ps),
    Pat::Tup(_) => Some(fields(d, t)?.into_iter().map(|(_, ft)| ft).collect()),
    Pat::Obj(fs) => {
      let ft = fields(d, t)?;
      fs.iter().map(|(i, _, _)| ft.get(*i).map(|(_, t)| t.clone())).collect()
    }
    Pat::Or(ps) => Some(vec![t.clone(); ps.len()]),
    _ => Some(vec![]),
  }
}

/// wildcard leaves with their type and nesting depth; `skip_or`: do not descend into or-patterns
fn wild_slots(d: &[Class], p: &Pat, t: &Ty, depth: usize, skip_or: bool, cur: &mut Vec<usize>, out: &mut Vec<(Vec<usize>, Ty, usize)>) {
  match p {
    Pat::Wild => out.push((cur.clone(), t.clone(), depth)),
    Pat::Var(_) => {}
    Pat::Or(_) if skip_or => {}
    _ => {
      let Some(cts) = child_types(d, p, t) else { return };
      let inc = if matches!(p, Pat::Or(_)) { 0 } else { 1 };
      for (i, ct) in cts.iter().enumerate() {
        if let Some(c) = child(p, i) {
          cur.push(i);
          wild_slots(d, c, ct, depth + inc, skip_or, cur, out);
          cur.pop();
        }
      }
    }
  }
}

/// (class, variant name) pairs mentioned by a pattern (typed walk)
fn mentioned(d: &[Class], p: &Pat, t: &Ty, out: &mut BTreeSet<(usize, String)>) {
  if let (Pat::Ctor(n, _), Ty::Cls(c, _)) = (p, t) {
    out.insert((*c, n.clone()));
  }
  let Some(cts) = child_types(d, p, t) else { return };
  for (i, ct) in cts.iter().enumerate() {
    if let Some(c) = child(p, i) {
      mentioned(d, c, ct, out);
    }
  }
}

/// parse the rendered counterexample (`Some(_)`, `(_, None)`, `(B(_), _, _, A)`) back into a term
fn parse_cx(s: &str) -> Option<Pat> {
  fn ws(cs: &[char], i: &mut usize) {
    while *i < cs.len() && cs[*i].is_whitespace() {
      *i += 1;
    }
  }
  fn list(cs: &[char], i: &mut usize) -> Option<Vec<Pat>> {
    // after '('
    let mut out = Vec::new();
    loop {
      ws(cs, i);
      if *i < cs.len() && cs[*i] == ')' {
        *i += 1;
        return Some(out);
      }
      out.push(or(cs, i)?);
      ws(cs, i);
      match cs.get(*i) {
        Some(',') => *i += 1,
        Some(')') => {}
        _ => return None,
      }
    }
  }
  fn atom(cs: &[char], i: &mut usize) -> Option<Pat> {
    ws(cs, i);
    match cs.get(*i)? {
      '_' => {
        *i += 1;
        Some(Pat::Wild)
      }
      '(' => {
        *i += 1;
        Some(Pat::Tup(list(cs, i)?))
      }
      c if c.is_ascii_uppercase() => {
        let st = *i;
        while *i < cs.len() && (cs[*i].is_ascii_alphanumeric() || cs[*i] == '_') {
          *i += 1;
        }
        let name: String = cs[st..*i].iter().collect();
        if cs.get(*i) == Some(&'(') {
          *i += 1;
          Some(Pat::Ctor(name, list(cs, i)?))
        } else {
          Some(Pat::Ctor(name, vec![]))
        }
      }
      _ => None,
    }
  }
  fn or(cs: &[char], i: &mut usize) -> Option<Pat> {
    let mut alts = vec![atom(cs, i)?];
    loop {
      ws(cs, i);
      if cs.get(*i) == Some(&'|') {
        *i += 1;
        alts.push(atom(cs, i)?);
      } else {
        break;
      }
    }
    Some(if alts.len() == 1 { alts.pop().unwrap() } else { Pat::Or(alts) })
  }
  let cs: Vec<char> = s.chars().collect();
  let mut i = 0;
  let p = or(&cs, &mut i)?;
  ws(&cs, &mut i);
  if i == cs.len() { Some(p) } else { None }
}

// ------------------------------------------------------------------------------------------------
// generator: type declarations
// ------------------------------------------------------------------------------------------------

const VARIANT_POOL: [&str; 8] = ["A", "B", "C", "D", "E", "F", "None", "Some"];
const FIELD_NAMES: [&str; 3] = ["fa", "fb", "fc"];

struct Heads {
  is_enum: Vec<bool>,
  nparams: Vec<usize>,
}

fn weighted(rng: &mut Rng, ws: &[u32]) -> usize {
  let total: u32 = ws.iter().sum();
  let mut r = rng.below(total as usize) as u32;
  for (i, w) in ws.iter().enumerate() {
    if r < *w {
      return i;
    }
    r -= w;
  }
  ws.len() - 1
}

/// a type argument for a reference made inside class `i`
fn gen_targ(rng: &mut Rng, h: &Heads, i: usize, base: bool, nest: usize) -> Ty {
  let np = h.nparams[i];
  loop {
    match weighted(rng, &[25, 20, 25, 25, 5]) {
      0 => return Ty::Int,
      1 => return Ty::Bool,
      2 if np > 0 => return Ty::Var(rng.below(np)),
      3 if i > 0 && nest < 2 => {
        let j = rng.below(i);
        return Ty::Cls(j, (0..h.nparams[j]).map(|_| gen_targ(rng, h, i, base, nest + 1)).collect());
      }
      4 if !base => return Ty::Cls(i, (0..np).map(Ty::Var).collect()),
      _ => {}
    }
  }
}

/// a payload / field type inside class `i`; `base`: only primitives, type variables and earlier
/// classes (keeps every class inhabited by induction on the class index)
fn gen_field_ty(rng: &mut Rng, h: &Heads, i: usize, base: bool, nest: usize) -> Ty {
  let np = h.nparams[i];
  let n = h.nparams.len();
  loop {
    match weighted(rng, &[14, 13, 18, 30, 15, 7, 3]) {
      0 => return Ty::Int,
      1 => return Ty::Bool,
      2 if np > 0 => return Ty::Var(rng.below(np)),
      3 if i > 0 => {
        let j = rng.below(i);
        return Ty::Cls(j, (0..h.nparams[j]).map(|_| gen_targ(rng, h, i, base, 0)).collect());
      }
      4 if !base => return Ty::Cls(i, (0..np).map(Ty::Var).collect()),
      5 if !base && np == 0 && i + 1 < n => {
        // forward reference (mutual nesting): only between non-generic classes
        let j = i + 1 + rng.below(n - i - 1);
        if h.nparams[j] == 0 {
          return Ty::Cls(j, vec![]);
        }
      }
      6 if nest == 0 => {
        return Ty::Tup(vec![gen_field_ty(rng, h, i, true, 1), gen_field_ty(rng, h, i, true, 1)]);
      }
      _ => {}
    }
  }
}

fn uses_var(t: &Ty, k: usize) -> bool {
  match t {
    Ty::Var(i) => *i == k,
    Ty::Cls(_, a) | Ty::Tup(a) => a.iter().any(|x| uses_var(x, k)),
    _ => false,
  }
}

fn gen_class(rng: &mut Rng, h: &Heads, i: usize) -> Class {
  let np = h.nparams[i];
  let name = format!("K{i}");
  let self_ty = Ty::Cls(i, (0..np).map(Ty::Var).collect());
  let mut pool: Vec<&str> = VARIANT_POOL.to_vec();
  rng.shuffle(&mut pool);
  let elem = |rng: &mut Rng| if np > 0 { Ty::Var(0) } else { gen_field_ty(rng, h, i, true, 1) };
  let kind = if !h.is_enum[i] {
    let nf = 1 + weighted(rng, &[25, 50, 25]);
    Kind::Struct((0..nf).map(|k| (FIELD_NAMES[k].to_string(), gen_field_ty(rng, h, i, true, 0))).collect())
  } else if rng.chance(3, 10) {
    // archetypes
    let v = |k: usize, ps: Vec<Ty>| (pool[k].to_string(), ps);
    match rng.below(5) {
      0 => Kind::Enum(vec![v(0, vec![]), v(1, vec![self_ty.clone()])]), // Nat
      1 => Kind::Enum(vec![v(0, vec![]), v(1, vec![elem(rng), self_ty.clone()])]), // List
      2 => Kind::Enum(vec![v(0, vec![]), v(1, vec![elem(rng)])]), // Option
      3 => Kind::Enum((0..2 + rng.below(4)).map(|k| v(k, vec![])).collect()), // flags
      _ => Kind::Enum(vec![v(0, vec![elem(rng)]), v(1, vec![self_ty.clone(), self_ty.clone()])]), // Tree
    }
  } else {
    let nv = 1 + weighted(rng, &[5, 35, 30, 20, 10]);
    let base = rng.below(nv);
    let mut vs = Vec::new();
    for k in 0..nv {
      let npay = if k == base { weighted(rng, &[70, 20, 10]) } else { weighted(rng, &[35, 38, 20, 7]) };
      vs.push((pool[k].to_string(), (0..npay).map(|_| gen_field_ty(rng, h, i, k == base, 0)).collect::<Vec<_>>()));
    }
    Kind::Enum(vs)
  };
  let mut c = Class { name, nparams: np, kind };
  // every type parameter must be used
  for k in 0..np {
    match &mut c.kind {
      Kind::Enum(vs) => {
        if !vs.iter().any(|(_, ps)| ps.iter().any(|p| uses_var(p, k))) {
          let cands: Vec<usize> = (0..vs.len()).filter(|x| vs[*x].1.len() < 3).collect();
          if cands.is_empty() {
            vs[0].1[0] = Ty::Var(k);
          } else {
            let x = *rng.pick(&cands);
            vs[x].1.push(Ty::Var(k));
          }
        }
      }
      Kind::Struct(fs) => {
        if !fs.iter().any(|(_, t)| uses_var(t, k)) {
          if fs.len() < 3 {
            let n = FIELD_NAMES[fs.len()].to_string();
            fs.push((n, Ty::Var(k)));
          } else {
            fs[k].1 = Ty::Var(k);
          }
        }
      }
    }
  }
  c
}

/// closed types reachable from `t` through payloads / fields (bounded)
fn reachable_types(d: &[Class], t: &Ty, out: &mut BTreeSet<Ty>, bound: usize) {
  if out.len() > bound || !out.insert(t.clone()) {
    return;
  }
  if let Some(vs) = variants(d, t) {
    for (_, ps) in vs {
      for p in ps {
        reachable_types(d, &p, out, bound);
      }
    }
  } else if let Some(fs) = fields(d, t) {
    for (_, ft) in fs {
      reachable_types(d, &ft, out, bound);
    }
  }
}

fn decls_ok(d: &[Class]) -> bool {
  for (i, c) in d.iter().enumerate() {
    let t = Ty::Cls(i, vec![Ty::Int; c.nparams]);
    if min_depth(d, &t, &mut vec![]).is_none() {
      return false;
    }
    let mut r = BTreeSet::new();
    reachable_types(d, &t, &mut r, 40);
    if r.len() > 40 {
      return false;
    }
  }
  true
}

fn gen_decls(rng: &mut Rng) -> Vec<Class> {
  loop {
    let n = 1 + weighted(rng, &[25, 40, 35]);
    let mut h = Heads { is_enum: vec![], nparams: vec![] };
    for i in 0..n {
      h.is_enum.push((i == 0 && n == 1) || rng.chance(3, 4));
      h.nparams.push(weighted(rng, &[62, 30, 8]));
    }
    let d: Vec<Class> = (0..n).map(|i| gen_class(rng, &h, i)).collect();
    if decls_ok(&d) {
      return d;
    }
  }
}

fn closed_ty(rng: &mut Rng, d: &[Class], nest: usize) -> Ty {
  match weighted(rng, &[76, 12, 12]) {
    0 => {
      let c = rng.below(d.len());
      if nest >= 2 && d[c].nparams > 0 {
        return Ty::Bool;
      }
      Ty::Cls(c, (0..d[c].nparams).map(|_| closed_ty(rng, d, nest + 1)).collect())
    }
    1 => Ty::Int,
    _ => Ty::Bool,
  }
}

fn class_ty(rng: &mut Rng, d: &[Class]) -> Ty {
  let c = rng.below(d.len());
  Ty::Cls(c, (0..d[c].nparams).map(|_| closed_ty(rng, d, 1)).collect())
}

/// (scrutinee type, scrutinee written as a tuple expression of the parameters)
fn gen_scrut(rng: &mut Rng, d: &[Class]) -> (Ty, bool) {
  if rng.chance(65, 100) {
    (class_ty(rng, d), false)
  } else {
    let w = 2 + weighted(rng, &[60, 30, 10]);
    let mut ts: Vec<Ty> = (0..w).map(|_| if rng.chance(3, 4) { class_ty(rng, d) } else { closed_ty(rng, d, 1) }).collect();
    if !ts.iter().any(|t| matches!(t, Ty::Cls(..))) {
      ts[0] = class_ty(rng, d);
    }
    (Ty::Tup(ts), rng.bool())
  }
}

// ------------------------------------------------------------------------------------------------
// generator: patterns and pattern matrices
// ------------------------------------------------------------------------------------------------

#[derive(Clone, Copy, Debug, PartialEq, Eq)]
enum FKind {
  Match,
  IfLet,
  Let,
}

#[derive(Clone, Debug, PartialEq)]
struct Func {
  kind: FKind,
  tuple_expr: bool,
  ty: Ty,
  rows: Vec<Pat>,
  mode: &'static str,
}

struct PG<'a> {
  rng: &'a mut Rng,
  d: &'a [Class],
  next_var: usize,
  /// names bound in the current arm (struct shorthands bind the field name itself)
  used: HashSet<String>,
}

impl PG<'_> {
  fn fresh(&mut self) -> String {
    self.next_var += 1;
    format!("v{}", self.next_var)
  }

  fn leaf(&mut self, bind: bool) -> Pat {
    if bind && self.rng.chance(2, 5) { Pat::Var(self.fresh()) } else { Pat::Wild }
  }

  fn obj_of(&mut self, fs: &[(String, Ty)], subs: Vec<Pat>, bind: bool) -> Pat {
    let mut items: Vec<(usize, String, Option<Pat>)> = Vec::new();
    for (i, ((n, _), s)) in fs.iter().zip(subs).enumerate() {
      let sub = if bind && matches!(s, Pat::Wild | Pat::Var(_)) && !self.used.contains(n) && self.rng.chance(1, 2) {
        self.used.insert(n.clone());
        None
      } else {
        Some(s)
      };
      items.push((i, n.clone(), sub));
    }
    self.rng.shuffle(&mut items);
    Pat::Obj(items)
  }

  /// a random well-typed pattern of nesting depth <= depth
  fn gen_pat(&mut self, t: &Ty, depth: usize, bind: bool, in_or: bool) -> Pat {
    if depth == 0 {
      return self.leaf(bind);
    }
    if let Some(vs) = variants(self.d, t) {
      let r = self.rng.below(100);
      if r < 14 {
        self.leaf(bind)
      } else if r < 80 || in_or || vs.len() < 2 {
        let (n, ps) = self.rng.pick(&vs).clone();
        Pat::Ctor(n, ps.iter().map(|p| self.gen_pat(p, depth - 1, bind, false)).collect())
      } else {
        let k = 2 + self.rng.below(2.min(vs.len() - 1));
        let mut alts: Vec<Pat> = (0..k).map(|_| self.gen_pat(t, depth, false, true)).collect();
        if bind && self.rng.chance(2, 5) {
          self.bind_common(&mut alts, t);
        }
        normalise(Pat::Or(alts))
      }
    } else if let Some(fs) = fields(self.d, t) {
      let r = self.rng.below(100);
      if r < 12 {
        return self.leaf(bind);
      }
      if r >= 94 && !in_or {
        let alts = vec![self.gen_pat(t, depth, false, true), self.gen_pat(t, depth, false, true)];
        return normalise(Pat::Or(alts));
      }
      let subs: Vec<Pat> = fs.iter().map(|(_, ft)| self.gen_pat(ft, depth - 1, bind, false)).collect();
      let as_obj = fs.len() < 2 || if matches!(t, Ty::Tup(_)) { r < 30 } else { r < 60 };
      if as_obj { self.obj_of(&fs, subs, bind) } else { Pat::Tup(subs) }
    } else {
      self.leaf(bind)
    }
  }

  /// make all alternatives of an or-pattern bind one common variable of one common type
  fn bind_common(&mut self, alts: &mut [Pat], t: &Ty) {
    let mut per_alt: Vec<Vec<(Vec<usize>, Ty, usize)>> = Vec::new();
    for a in alts.iter() {
      let mut s = Vec::new();
      wild_slots(self.d, a, t, 0, true, &mut vec![], &mut s);
      per_alt.push(s);
    }
    let mut common: Vec<Ty> = per_alt[0].iter().map(|(_, ty, _)| ty.clone()).collect();
    common.retain(|ty| per_alt.iter().all(|s| s.iter().any(|(_, t2, _)| t2 == ty)));
    if common.is_empty() {
      return;
    }
    let ty = self.rng.pick(&common).clone();
    let name = self.fresh();
    for (a, s) in alts.iter_mut().zip(&per_alt) {
      let cands: Vec<&(Vec<usize>, Ty, usize)> = s.iter().filter(|(_, t2, _)| *t2 == ty).collect();
      let (path, _, _) = *self.rng.pick(&cands);
      *a = replace_at(a, path, &Pat::Var(name.clone()));
    }
  }

  /// rows that together cover every value of `t` (repeated splitting of wildcards)
  fn gen_cover(&mut self, t: &Ty, kmax: usize, max_rows: usize) -> Vec<Pat> {
    let mut rows = vec![Pat::Wild];
    let nsplit = 1 + self.rng.below(5);
    for _ in 0..nsplit {
      let r = self.rng.below(rows.len());
      let mut slots = Vec::new();
      wild_slots(self.d, &rows[r], t, 0, false, &mut vec![], &mut slots);
      slots.retain(|(_, st, dep)| *dep < kmax && matches!(st, Ty::Cls(..) | Ty::Tup(_)));
      if slots.is_empty() {
        continue;
      }
      let (path, st, _) = self.rng.pick(&slots).clone();
      if let Some(mut vs) = variants(self.d, &st) {
        let room = max_rows - rows.len();
        let g = 1 + self.rng.below(vs.len().min(room + 1));
        self.rng.shuffle(&mut vs);
        // cut the shuffled variant list into g non-empty groups
        let mut cuts: Vec<usize> = (1..vs.len()).collect();
        self.rng.shuffle(&mut cuts);
        let mut cuts: Vec<usize> = cuts.into_iter().take(g - 1).collect();
        cuts.sort();
        cuts.push(vs.len());
        let mut start = 0;
        let mut new_rows = Vec::new();
        for c in cuts {
          let group: Vec<Pat> = vs[start..c].iter().map(|(n, ps)| Pat::Ctor(n.clone(), vec![Pat::Wild; ps.len()])).collect();
          start = c;
          let rep = if group.len() == 1 { group[0].clone() } else { Pat::Or(group) };
          new_rows.push(normalise(replace_at(&rows[r], &path, &rep)));
        }
        rows.splice(r..=r, new_rows);
      } else if let Some(fs) = fields(self.d, &st) {
        let rep = if fs.len() < 2 {
          Pat::Obj(fs.iter().enumerate().map(|(i, (n, _))| (i, n.clone(), Some(Pat::Wild))).collect())
        } else {
          Pat::Tup(vec![Pat::Wild; fs.len()])
        };
        rows[r] = replace_at(&rows[r], &path, &rep);
      }
    }
    rows
  }

  /// cosmetic variation that does not change what a row matches: variables for wildcards (outside
  /// or-patterns), struct-pattern form for positional patterns
  fn decorate(&mut self, p: &Pat, t: &Ty, bind: bool) -> Pat {
    match p {
      Pat::Wild => self.leaf(bind),
      Pat::Or(ps) => Pat::Or(ps.iter().map(|q| self.decorate(q, t, false)).collect()),
      _ => {
        let cts = child_types(self.d, p, t).unwrap_or_default();
        match p {
          Pat::Ctor(n, ps) => Pat::Ctor(n.clone(), ps.iter().zip(&cts).map(|(q, ct)| self.decorate(q, ct, bind)).collect()),
          Pat::Tup(ps) => {
            let subs: Vec<Pat> = ps.iter().zip(&cts).map(|(q, ct)| self.decorate(q, ct, bind)).collect();
            match fields(self.d, t) {
              Some(fs) if self.rng.chance(1, 3) => self.obj_of(&fs, subs, bind),
              _ => Pat::Tup(subs),
            }
          }
          Pat::Obj(fs) => Pat::Obj(
            fs.iter().zip(&cts).map(|((i, n, s), ct)| (*i, n.clone(), s.as_ref().map(|q| self.decorate(q, ct, bind)))).collect(),
          ),
          _ => p.clone(),
        }
      }
    }
  }

  /// remove one combination from a cover
  fn punch_hole(&mut self, rows: &mut Vec<Pat>, t: &Ty, kmax: usize) {
    let r = self.rng.below(rows.len());
    let mut paths = Vec::new();
    all_paths(&rows[r], &mut vec![], &mut paths);
    let or_paths: Vec<Vec<usize>> = paths.into_iter().filter(|p| matches!(get_at(&rows[r], p), Some(Pat::Or(_)))).collect();
    if !or_paths.is_empty() && self.rng.bool() {
      let path = self.rng.pick(&or_paths).clone();
      if let Some(Pat::Or(alts)) = get_at(&rows[r], &path) {
        let mut alts = alts.clone();
        let k = self.rng.below(alts.len());
        alts.remove(k);
        rows[r] = normalise(replace_at(&rows[r], &path, &Pat::Or(alts)));
        return;
      }
    }
    if rows.len() > 1 {
      rows.remove(r);
      return;
    }
    let mut slots = Vec::new();
    wild_slots(self.d, &rows[r], t, 0, false, &mut vec![], &mut slots);
    slots.retain(|(_, st, dep)| *dep < kmax && variants(self.d, st).is_some_and(|v| v.len() >= 2));
    if slots.is_empty() {
      return;
    }
    let (path, st, _) = self.rng.pick(&slots).clone();
    let vs = variants(self.d, &st).unwrap();
    let (n, ps) = self.rng.pick(&vs).clone();
    rows[r] = normalise(replace_at(&rows[r], &path, &Pat::Ctor(n, vec![Pat::Wild; ps.len()])));
  }
}

fn gen_func(rng: &mut Rng, d: &[Class], st: &mut Stats) -> Option<Func> {
  for _ in 0..10 {
    let (ty, tuple_expr) = gen_scrut(rng, d);
    let mut kmax = 1 + weighted(rng, &[15, 40, 45]);
    let env = Env::new(d);
    while kmax > 1 && env.count(&ty, kmax + 1) > VAL_CAP {
      kmax -= 1;
      st.bump("generator:pattern-depth-reduced-to-keep-value-space-under-cap");
    }
    if env.count(&ty, kmax + 1) > VAL_CAP {
      st.bump("generator:scrutinee-regenerated-value-space-too-large");
      continue;
    }
    let kind = [FKind::Match, FKind::IfLet, FKind::Let][weighted(rng, &[60, 25, 15])];
    let m = rng.below(3);
    let mut g = PG { rng, d, next_var: 0, used: HashSet::new() };
    let (rows, mode) = if kind == FKind::Match {
      match m {
        0 | 1 => {
          let mut rows = g.gen_cover(&ty, kmax, 6);
          if m == 1 {
            g.punch_hole(&mut rows, &ty, kmax);
          } else {
            if rows.len() > 1 && g.rng.chance(15, 100) {
              let n = rows.len();
              rows[n - 1] = Pat::Wild;
            }
            if rows.len() < 6 && g.rng.chance(15, 100) {
              let extra = g.gen_pat(&ty, kmax, false, false);
              let at = g.rng.below(rows.len() + 1);
              rows.insert(at, extra);
            }
          }
          if g.rng.bool() {
            g.rng.shuffle(&mut rows);
          }
          let rows = rows
            .iter()
            .map(|r| {
              g.used.clear();
              g.decorate(r, &ty, true)
            })
            .collect();
          (rows, if m == 0 { "cover" } else { "cover-with-hole" })
        }
        _ => {
          let n = 1 + g.rng.below(6);
          let mut rows: Vec<Pat> = (0..n)
            .map(|_| {
              g.used.clear();
              g.gen_pat(&ty, kmax, true, false)
            })
            .collect();
          if n < 6 && g.rng.chance(1, 5) {
            rows.push(Pat::Wild);
          }
          (rows, "random")
        }
      }
    } else {
      match m {
        0 | 1 => {
          let mut rows = g.gen_cover(&ty, kmax, 4);
          if m == 1 {
            g.punch_hole(&mut rows, &ty, kmax);
          }
          let joined = if rows.len() == 1 { rows.pop().unwrap() } else { normalise(Pat::Or(rows)) };
          let p = g.decorate(&joined, &ty, true);
          (vec![p], if m == 0 { "cover" } else { "cover-with-hole" })
        }
        _ => (vec![g.gen_pat(&ty, kmax, true, false)], "random"),
      }
    };
    return Some(Func { kind, tuple_expr, ty, rows, mode });
  }
  None
}

// ------------------------------------------------------------------------------------------------
// statistics
// ------------------------------------------------------------------------------------------------

#[derive(Default)]
struct Stats {
  counters: BTreeMap<String, u64>,
  hashes: HashSet<u64>,
  violations: Vec<(String, String, String)>,
  inconclusive: BTreeMap<String, u64>,
  generator_error_samples: Vec<String>,
  samples: Vec<serde_json::Value>,
  vals_max: u64,
  minimised: BTreeMap<String, u32>,
  /// (message, module text) of compiler panics on accepted programs
  compile_panics: Vec<(String, String)>,
}

impl Stats {
  fn bump(&mut self, k: &str) {
    self.add(k, 1);
  }
  fn add(&mut self, k: &str, n: u64) {
    *self.counters.entry(k.to_string()).or_insert(0) += n;
  }
  fn inconclusive(&mut self, k: &str, n: u64) {
    *self.inconclusive.entry(k.to_string()).or_insert(0) += n;
  }
  fn merge(&mut self, o: Stats) {
    for (k, v) in o.counters {
      self.add(&k, v);
    }
    for (k, v) in o.inconclusive {
      self.inconclusive(&k, v);
    }
    self.hashes.extend(o.hashes);
    self.violations.extend(o.violations);
    for s in o.generator_error_samples {
      if self.generator_error_samples.len() < 8 {
        self.generator_error_samples.push(s);
      }
    }
    for s in o.samples {
      if self.samples.len() < 2 {
        self.samples.push(s);
      }
    }
    self.vals_max = self.vals_max.max(o.vals_max);
    for s in o.compile_panics {
      if self.compile_panics.len() < 6 && !self.compile_panics.iter().any(|(m, _)| *m == s.0) {
        self.compile_panics.push(s);
      }
    }
  }
}

// ------------------------------------------------------------------------------------------------
// program text
// ------------------------------------------------------------------------------------------------

fn tuples_src() -> &'static str {
  static S: OnceLock<String> = OnceLock::new();
  S.get_or_init(|| std::fs::read_to_string(format!("{}/std/tuples.sam", front::REPO)).expect("std/tuples.sam"))
}

fn func_str(d: &[Class], f: &Func, name: &str) -> String {
  let (params, scrut) = match (&f.ty, f.tuple_expr) {
    (Ty::Tup(ts), true) => (
      ts.iter().enumerate().map(|(i, t)| format!("s{}: {}", i, ty_str(d, t))).collect::<Vec<_>>().join(", "),
      format!("({})", (0..ts.len()).map(|i| format!("s{i}")).collect::<Vec<_>>().join(", ")),
    ),
    _ => (format!("s: {}", ty_str(d, &f.ty)), "s".to_string()),
  };
  match f.kind {
    FKind::Match => {
      let arms = f.rows.iter().enumerate().map(|(i, r)| format!("{} -> {}", pat_str(r), i)).collect::<Vec<_>>().join(", ");
      format!("function {name}({params}): int = match {scrut} {{ {arms} }}")
    }
    FKind::IfLet => format!("function {name}({params}): int = if let {} = {scrut} {{ 0 }} else {{ 1 }}", pat_str(&f.rows[0])),
    FKind::Let => format!("function {name}({params}): int = {{ let {} = {scrut}; 0 }}", pat_str(&f.rows[0])),
  }
}

fn call_str(d: &[Class], f: &Func, name: &str, v: &Val) -> String {
  let args = match (v, f.tuple_expr) {
    (Val::Rec { fields, .. }, true) => vals_str(d, fields),
    _ => val_str(d, v),
  };
  format!("Main.p(Main.{name}({args}));")
}

fn class_refs(t: &Ty, out: &mut BTreeSet<usize>) {
  match t {
    Ty::Cls(c, a) => {
      out.insert(*c);
      a.iter().for_each(|x| class_refs(x, out));
    }
    Ty::Tup(a) => a.iter().for_each(|x| class_refs(x, out)),
    _ => {}
  }
}

/// classes reachable from a type through declarations
fn reachable_classes(d: &[Class], t: &Ty) -> BTreeSet<usize> {
  let mut seen = BTreeSet::new();
  let mut todo = BTreeSet::new();
  class_refs(t, &mut todo);
  while let Some(c) = todo.pop_first() {
    if !seen.insert(c) {
      continue;
    }
    let mut r = BTreeSet::new();
    match &d[c].kind {
      Kind::Enum(vs) => vs.iter().for_each(|(_, ps)| ps.iter().for_each(|p| class_refs(p, &mut r))),
      Kind::Struct(fs) => fs.iter().for_each(|(_, t)| class_refs(t, &mut r)),
    }
    todo.extend(r.into_iter().filter(|x| !seen.contains(x)));
  }
  seen
}

/// module text; returns (text, 0-based line of the first function)
fn program_str(d: &[Class], only: Option<&BTreeSet<usize>>, funcs: &[(String, &Func)], calls: &[String]) -> (String, usize) {
  let mut s = String::from("import { Pair, Triple, Tuple4 } from std.tuples;\n");
  let mut line = 1;
  for (i, c) in d.iter().enumerate() {
    if only.is_none_or(|o| o.contains(&i)) {
      s.push_str(&class_str(d, c));
      s.push('\n');
      line += 1;
    }
  }
  s.push_str("class Main {\n");
  line += 1;
  let first = line;
  for (n, f) in funcs {
    s.push_str("  ");
    s.push_str(&func_str(d, f, n));
    s.push('\n');
  }
  s.push_str("  function p(i: int): unit = Process.println(Str.fromInt(i))\n");
  if calls.is_empty() {
    s.push_str("  function main(): unit = {}\n");
  } else {
    s.push_str("  function main(): unit = {\n");
    for c in calls {
      s.push_str("    ");
      s.push_str(c);
      s.push('\n');
    }
    s.push_str("  }\n");
  }
  s.push_str("}\n");
  (s, first)
}

// ------------------------------------------------------------------------------------------------
// running the real front end
// ------------------------------------------------------------------------------------------------

#[derive(Clone, Debug)]
enum DK {
  NonExh(String),
  UselessOnly,
  UselessCovered,
  Other(String),
}

#[derive(Clone, Debug)]
struct Diag {
  line: usize,
  kind: DK,
}

fn project(text: &str) -> Project {
  Project::single("T", text).with("std.tuples", tuples_src())
}

fn collect_diags(heap: &mut Heap, c: &front::Checked) -> Vec<Diag> {
  let t = front::mod_ref(heap, "T");
  let mut out = Vec::new();
  for e in c.errors.errors() {
    let line = e.location.start.0 as usize;
    let in_t = e.location.module_reference == t;
    let kind = match &e.detail {
      samlang_errors::ErrorDetail::NonExhaustiveMatch { counter_example } if in_t => {
        let ide = e.to_ide_format(heap, &c.handles).ide_error;
        let shown = ide.split("non-matching value: `").nth(1).and_then(|r| r.rfind("`.").map(|k| r[..k].to_string()));
        DK::NonExh(shown.unwrap_or_else(|| counter_example.pretty_print(heap)))
      }
      samlang_errors::ErrorDetail::UselessPattern { only_pattern: true } if in_t => DK::UselessOnly,
      samlang_errors::ErrorDetail::UselessPattern { only_pattern: false } if in_t => DK::UselessCovered,
      _ => {
        let ide = e.to_ide_format(heap, &c.handles).ide_error;
        DK::Other(format!("{}: {}", e.location.pretty_print(heap), ide.replace('\n', " ")))
      }
    };
    out.push(Diag { line, kind });
  }
  out
}

/// Err = the checker panicked (message @ file:line)
fn check_text(text: &str) -> Result<Vec<Diag>, String> {
  let p = project(text);
  vcore::pool::catch(AssertUnwindSafe(|| {
    let mut heap = Heap::new();
    let c = front::check_project(&mut heap, &p);
    collect_diags(&mut heap, &c)
  }))
}

fn limits() -> Limits {
  Limits { max_steps: 20_000_000, max_depth: 3000, max_lines: 5000 }
}

/// check + reference interpreter; Err(Some(panic)) / Ok((diags, trace))
fn check_and_run_ref(text: &str) -> Result<(Vec<Diag>, Option<vcore::trace::Trace>), String> {
  let p = project(text);
  vcore::pool::catch(AssertUnwindSafe(|| {
    let mut heap = Heap::new();
    let c = front::check_project(&mut heap, &p);
    let diags = collect_diags(&mut heap, &c);
    if !diags.is_empty() {
      return (diags, None);
    }
    let entry = front::mod_ref(&mut heap, "T");
    let (t, _) = vcore::refint::run(&heap, &c.checked, entry, &limits());
    (diags, Some(t))
  }))
}

fn run_wasm(text: &str) -> Result<vcore::trace::Trace, String> {
  let p = project(text);
  match vcore::pool::catch(AssertUnwindSafe(|| front::compile_project(&p, "T"))) {
    Err(e) => Err(format!("compiler panic: {e}")),
    Ok(Err(e)) => Err(format!("compile error: {}", e.lines().next().unwrap_or(""))),
    Ok(Ok(c)) => match vcore::pool::catch(AssertUnwindSafe(|| vcore::wasmi::run(&c.wasm, &c.main_fn, &limits()))) {
      Ok((t, _)) => Ok(t),
      Err(e) => Err(format!("wasm interpreter panic: {e}")),
    },
  }
}

// ------------------------------------------------------------------------------------------------
// shape classes
// ------------------------------------------------------------------------------------------------

#[derive(Default, Debug)]
struct Feat {
  or_pat: bool,
  obj_pat: bool,
  /// some struct pattern lists the fields in an order other than the declaration order
  obj_reordered: bool,
  depth: usize,
  recursive: bool,
  single_rec: bool,
  /// some enum variant has exactly one payload of a class type (candidate of the unboxing optimisation)
  single_cls: bool,
  mutual: bool,
  generic: bool,
  strukt: bool,
  tuple: bool,
  name_collision: bool,
}

fn features(d: &[Class], f: &Func) -> Feat {
  let mut ft = Feat {
    or_pat: f.rows.iter().any(has_or),
    obj_pat: f.rows.iter().any(has_obj),
    obj_reordered: f.rows.iter().any(|r| sort_obj(r) != *r),
    depth: f.rows.iter().map(pdepth).max().unwrap_or(0),
    ..Feat::default()
  };
  let mut tys = BTreeSet::new();
  reachable_types(d, &f.ty, &mut tys, 200);
  let mut names: HashMap<String, usize> = HashMap::new();
  let classes = reachable_classes(d, &f.ty);
  for c in &classes {
    ft.generic |= d[*c].nparams > 0;
    match &d[*c].kind {
      Kind::Struct(_) => ft.strukt = true,
      Kind::Enum(vs) => {
        for (n, _) in vs {
          if *names.entry(n.clone()).or_insert(*c) != *c {
            ft.name_collision = true;
          }
        }
      }
    }
  }
  for t in &tys {
    if matches!(t, Ty::Tup(_)) {
      ft.tuple = true;
    }
    let Ty::Cls(c, _) = t else { continue };
    // does t reach itself?
    let mut succ = BTreeSet::new();
    let direct: Vec<Ty> = variants(d, t)
      .map(|vs| vs.into_iter().flat_map(|(_, ps)| ps).collect())
      .or_else(|| fields(d, t).map(|fs| fs.into_iter().map(|(_, x)| x).collect()))
      .unwrap_or_default();
    for p in &direct {
      reachable_types(d, p, &mut succ, 200);
    }
    if succ.contains(t) {
      ft.recursive = true;
      if succ.iter().any(|s| matches!(s, Ty::Cls(c2, _) if c2 != c) && {
        let mut back = BTreeSet::new();
        reachable_types(d, s, &mut back, 200);
        back.contains(t)
      }) {
        ft.mutual = true;
      }
    }
    if let Some(vs) = variants(d, t) {
      for (_, ps) in vs {
        if ps.len() == 1 && matches!(ps[0], Ty::Cls(..) | Ty::Tup(_)) {
          ft.single_cls = true;
        }
        if ps.len() == 1 && variants(d, &ps[0]).is_some() {
          let mut r = BTreeSet::new();
          reachable_types(d, &ps[0], &mut r, 200);
          if r.contains(t) {
            ft.single_rec = true;
          }
        }
      }
    }
  }
  ft
}

fn shape_suffix(ft: &Feat, class: &str) -> String {
  if class.starts_with("runtime") {
    // run-time failures: type shape first (the known backend defects are type-shaped), then the
    // pattern features that survived minimisation
    let ty = if ft.obj_reordered {
      "struct-pattern-reordered-fields"
    } else if ft.single_rec {
      "recursive-enum-single-payload"
    } else if ft.single_cls {
      "enum-single-class-payload"
    } else if ft.recursive {
      "recursive-enum"
    } else if ft.generic {
      "generic-enum"
    } else if ft.strukt || ft.obj_pat {
      "struct-pattern"
    } else if ft.tuple {
      "tuple-of-enums"
    } else {
      "plain-enum"
    };
    // the three defect-shaped classes keep one signature each; elsewhere a surviving or-pattern is
    // part of the shape
    let known_shape = ft.obj_reordered || ft.single_rec || ft.single_cls;
    return format!("{ty}{}", if ft.or_pat && !known_shape { "+or-pattern" } else { "" });
  }
  let s = if ft.or_pat {
    "or-pattern"
  } else if ft.obj_pat || ft.strukt {
    "struct-pattern"
  } else if ft.recursive {
    "recursive-enum"
  } else if ft.generic {
    "generic-enum"
  } else if ft.tuple {
    "tuple-of-enums"
  } else if ft.depth >= 2 {
    "nested-enum"
  } else {
    "plain-enum"
  };
  s.to_string()
}

// ------------------------------------------------------------------------------------------------
// judging one function against the oracle
// ------------------------------------------------------------------------------------------------

#[derive(Clone, Debug)]
struct Finding {
  class: String,
  what: String,
  witness: String,
  call: Option<String>,
}

fn finding(class: &str, what: String, witness: String) -> Finding {
  Finding { class: class.to_string(), what, witness, call: None }
}

struct Oracle {
  vals: Vec<Val>,
  arms: Vec<Option<usize>>,
}

fn oracle(d: &[Class], f: &Func, min_depth_of_terms: usize) -> Oracle {
  let depth = f.rows.iter().map(pdepth).max().unwrap_or(0).max(min_depth_of_terms) + 1;
  let vals = Env::new(d).vals(&f.ty, depth);
  let arms = vals.iter().map(|v| first_arm(&f.rows, v)).collect();
  Oracle { vals, arms }
}

fn check_cx(d: &[Class], f: &Func, cx: &str, orc: &Oracle, st: &mut Stats, count: bool) -> Option<Finding> {
  let Some(term) = parse_cx(cx) else {
    return Some(finding("counterexample-unparsable", format!("counterexample text `{cx}` does not parse as a pattern term"), cx.to_string()));
  };
  if count {
    st.bump("counterexamples:parsed");
  }
  let deeper;
  let orc = if pdepth(&term) > f.rows.iter().map(pdepth).max().unwrap_or(0) {
    if Env::new(d).count(&f.ty, pdepth(&term) + 1) > VAL_CAP * 20 {
      st.inconclusive("counterexample deeper than the patterns and value space too large", 1);
      return None;
    }
    if count {
      st.bump("counterexamples:deeper-than-patterns");
    }
    deeper = oracle(d, f, pdepth(&term));
    &deeper
  } else {
    orc
  };
  let denoted: Vec<usize> = (0..orc.vals.len()).filter(|i| tmatch(&term, &orc.vals[*i])).collect();
  if count {
    st.add("counterexamples:denoted-values-checked", denoted.len() as u64);
  }
  if denoted.is_empty() {
    return Some(finding(
      "counterexample-denotes-no-value",
      format!("counterexample `{cx}` matches none of the {} enumerated values of {}", orc.vals.len(), ty_str(d, &f.ty)),
      cx.to_string(),
    ));
  }
  let matched: Vec<usize> = denoted.iter().copied().filter(|i| orc.arms[*i].is_some()).collect();
  if matched.len() == denoted.len() {
    let i = matched[0];
    return Some(finding(
      "counterexample-is-matched",
      format!(
        "WEAK check fails: every one of the {} values denoted by counterexample `{cx}` is matched by some arm (e.g. arm {})",
        denoted.len(),
        orc.arms[i].unwrap()
      ),
      val_str(d, &orc.vals[i]),
    ));
  }
  if let Some(&i) = matched.first() {
    return Some(finding(
      "counterexample-partly-matched",
      format!(
        "STRONG check fails (weak holds): {} of the {} values denoted by counterexample `{cx}` are matched by an arm (e.g. arm {})",
        matched.len(),
        denoted.len(),
        orc.arms[i].unwrap()
      ),
      val_str(d, &orc.vals[i]),
    ));
  }
  if count {
    st.bump("counterexamples:all-denoted-values-unmatched");
  }
  None
}

/// returns the findings and, when the function is accepted by checker and oracle alike (so it can be
/// executed), the oracle
fn judge(d: &[Class], f: &Func, diags: &[&Diag], st: &mut Stats, count: bool) -> (Vec<Finding>, Option<Oracle>) {
  let nonexh: Option<&String> = diags.iter().find_map(|x| if let DK::NonExh(c) = &x.kind { Some(c) } else { None });
  let flagged = diags.iter().any(|x| matches!(x.kind, DK::UselessOnly));
  let covered = diags.iter().filter(|x| matches!(x.kind, DK::UselessCovered)).count();
  let orc = oracle(d, f, 0);
  let total = orc.vals.len();
  let unmatched: Vec<usize> = (0..total).filter(|i| orc.arms[*i].is_none()).collect();
  let mut out = Vec::new();
  let mut verdict = "";
  let mut runnable = false;
  if count {
    st.add("values:enumerated-total", total as u64);
    st.vals_max = st.vals_max.max(total as u64);
    st.add("checker:redundant-arm-reports(only_pattern=false)", covered as u64);
    if f.kind == FKind::Match {
      let reachable: BTreeSet<usize> = orc.arms.iter().flatten().copied().collect();
      st.add("oracle:redundant-arms(no value reaches them)", (f.rows.len() - reachable.len()) as u64);
      st.add("oracle:arms-total", f.rows.len() as u64);
    }
  }
  let witness = |i: usize| val_str(d, &orc.vals[i]);
  match f.kind {
    FKind::Match | FKind::Let => {
      let is_let = f.kind == FKind::Let;
      if flagged {
        out.push(finding("unexpected-irrefutable-flag", "UselessPattern{only_pattern:true} reported on a match / let".into(), String::new()));
      }
      match (nonexh, unmatched.first()) {
        (None, None) => {
          verdict = if is_let { "let-irrefutable-accepted" } else { "match-exhaustive-accepted" };
          runnable = !flagged;
        }
        (None, Some(&i)) => out.push(finding(
          if is_let { "let-refutable-accepted" } else { "accepted-but-value-unmatched" },
          format!("checker accepts, but {} of {} enumerated values are matched by no {}", unmatched.len(), total, if is_let { "let pattern" } else { "arm" }),
          witness(i),
        )),
        (Some(cx), None) => out.push(finding(
          if is_let { "let-irrefutable-rejected" } else { "rejected-but-exhaustive" },
          format!("checker rejects with counterexample `{cx}`, but all {total} enumerated values are matched"),
          cx.clone(),
        )),
        (Some(cx), Some(_)) => {
          verdict = if is_let { "let-refutable-rejected" } else { "match-nonexhaustive-rejected" };
          out.extend(check_cx(d, f, cx, &orc, st, count));
        }
      }
    }
    FKind::IfLet => {
      if let Some(cx) = nonexh {
        out.push(finding("iflet-unexpected-nonexhaustive", format!("NonExhaustiveMatch (`{cx}`) reported on an if-let"), cx.clone()));
      }
      match (flagged, unmatched.first()) {
        (true, None) => verdict = "iflet-irrefutable-flagged",
        (false, Some(_)) => {
          verdict = "iflet-refutable-unflagged";
          runnable = nonexh.is_none();
        }
        (false, None) => out.push(finding(
          "iflet-irrefutable-not-flagged",
          format!("pattern matches all {total} enumerated values but is not reported as irrefutable"),
          String::new(),
        )),
        (true, Some(&i)) => out.push(finding(
          "iflet-flagged-but-refutable",
          format!("pattern reported as irrefutable, but {} of {} enumerated values do not match it", unmatched.len(), total),
          witness(i),
        )),
      }
    }
  }
  if count && !verdict.is_empty() {
    st.bump(&format!("verdict:{verdict}"));
    st.bump(&format!("mode:{}:{}", f.mode, verdict));
  }
  let ok = runnable && out.is_empty();
  (out, if ok { Some(orc) } else { None })
}

fn expected_arm(f: &Func, orc: &Oracle, i: usize) -> usize {
  match f.kind {
    FKind::Match => orc.arms[i].unwrap_or(usize::MAX),
    FKind::IfLet => {
      if orc.arms[i].is_some() {
        0
      } else {
        1
      }
    }
    FKind::Let => 0,
  }
}

// ------------------------------------------------------------------------------------------------
// one program: check, judge every function, execute the accepted ones
// ------------------------------------------------------------------------------------------------

#[derive(Default)]
struct ProgOut {
  /// (function index or usize::MAX when unattributable, finding)
  findings: Vec<(usize, Finding)>,
  generator: Vec<String>,
}

/// expected: (function index, value index, expected arm, call text, value text)
fn compare(
  trace: &vcore::trace::Trace,
  expected: &[(usize, usize, usize, String, String)],
  exec: &str,
  st: &mut Stats,
  count: bool,
  out: &mut ProgOut,
) {
  let n = trace.lines.len().min(expected.len());
  if count {
    st.add(&format!("runtime:arms-executed:{exec}"), n as u64);
  }
  let mut bad: HashSet<usize> = HashSet::new();
  for (line, (fi, _, arm, call, v)) in trace.lines.iter().zip(expected) {
    if line.trim().parse::<usize>().ok() != Some(*arm) && bad.insert(*fi) {
      out.findings.push((
        *fi,
        Finding {
          class: format!("runtime-wrong-arm:{exec}"),
          what: format!("{exec} executor took arm `{line}`, the oracle's first matching arm is {arm}"),
          witness: v.clone(),
          call: Some(call.clone()),
        },
      ));
    }
  }
  if trace.lines.len() < expected.len() {
    let (fi, _, arm, call, v) = &expected[trace.lines.len()];
    let class = match &trace.ending {
      Ending::NoArmMatched => format!("runtime-fallthrough:{exec}"),
      Ending::Panic(m) if m.is_empty() => format!("runtime-fallthrough:{exec}"),
      Ending::Fault { kind, .. } if kind == "InvalidModule" => format!("runtime-invalid-module:{exec}"),
      Ending::Fault { kind, .. } => format!("runtime-fault-{kind}:{exec}"),
      Ending::StepLimit | Ending::Harness(_) => {
        st.inconclusive(&format!("executor {exec}: {:?}", trace.ending).chars().take(100).collect::<String>(), 1);
        return;
      }
      Ending::Return => format!("runtime-missing-output:{exec}"),
      _ => format!("runtime-abnormal-ending:{exec}"),
    };
    if bad.insert(*fi) {
      out.findings.push((
        *fi,
        Finding {
          class,
          what: format!("accepted match did not yield an arm at run time ({exec}): ending {:?}, expected arm {arm}", trace.ending),
          witness: v.clone(),
          call: Some(call.clone()),
        },
      ));
    }
  } else if trace.ending != Ending::Return || trace.lines.len() > expected.len() {
    st.inconclusive(&format!("executor {exec}: all arms printed but ending {:?} / {} extra lines", trace.ending, trace.lines.len() - n), 1);
  }
}

fn process(d: &[Class], funcs: &[Func], run_ref: bool, run_wasm: bool, st: &mut Stats, count: bool) -> ProgOut {
  let mut out = ProgOut::default();
  let names: Vec<String> = (0..funcs.len()).map(|i| format!("m{i}")).collect();
  let named: Vec<(String, &Func)> = names.iter().cloned().zip(funcs).collect();
  let (text, first) = program_str(d, None, &named, &[]);
  let diags = match check_text(&text) {
    Ok(x) => x,
    Err(mut p) => {
      // the panic location is kept in a process-wide slot that concurrent `catch` calls of other
      // worker threads may clear: re-run until it is captured
      for _ in 0..8 {
        if !p.rsplit(" @ ").next().unwrap_or("").is_empty() {
          break;
        }
        if let Err(p2) = check_text(&text) {
          p = p2;
        }
      }
      let loc = p.rsplit(" @ ").next().unwrap_or("").to_string();
      out.findings.push((usize::MAX, finding(&format!("checker-panic:{loc}"), format!("type checker panicked: {p}"), String::new())));
      return out;
    }
  };
  for x in &diags {
    let in_range = x.line >= first && x.line < first + funcs.len();
    match &x.kind {
      DK::Other(t) => out.generator.push(t.clone()),
      _ if !in_range => out.generator.push(format!("diagnostic outside the generated functions (line {}): {:?}", x.line + 1, x.kind)),
      _ => {}
    }
  }
  if !out.generator.is_empty() {
    return out;
  }
  let mut runnable: Vec<(usize, Oracle)> = Vec::new();
  for (i, f) in funcs.iter().enumerate() {
    let mine: Vec<&Diag> = diags.iter().filter(|x| x.line == first + i).collect();
    let (fs, orc) = judge(d, f, &mine, st, count);
    out.findings.extend(fs.into_iter().map(|x| (i, x)));
    if let Some(o) = orc {
      runnable.push((i, o));
    }
  }
  if runnable.is_empty() || !(run_ref || run_wasm) {
    return out;
  }
  // phase 2: the accepted functions only, with a main that runs each on (a sample of) its values
  let all: Vec<&(usize, Oracle)> = runnable.iter().collect();
  let (text2, expected) = phase2(d, funcs, &names, &all);
  if count {
    st.bump("runtime:programs");
    st.add("runtime:functions-executed", runnable.len() as u64);
  }
  if run_ref {
    match check_and_run_ref(&text2) {
      Err(p) => st.inconclusive(&format!("panic while checking / interpreting the runtime program: {}", p.chars().take(120).collect::<String>()), 1),
      Ok((dg, None)) => {
        out.generator.push(format!("runtime program has diagnostics: {:?}", dg.first().map(|x| &x.kind)));
        return out;
      }
      Ok((_, Some(trace))) => compare(&trace, &expected, "ref", st, count, &mut out),
    }
  }
  if run_wasm {
    if count {
      st.bump("runtime:programs-through-wasm");
    }
    match run_wasm_text(&text2) {
      Ok(trace) => compare(&trace, &expected, "wasm", st, count, &mut out),
      Err(e) => {
        let short = e.replace("/repo/crates/", "");
        if e.starts_with("compiler panic") && st.compile_panics.len() < 3 && !st.compile_panics.iter().any(|(m, _)| *m == short) {
          st.compile_panics.push((short.clone(), text2.clone()));
        }
        st.inconclusive(&format!("wasm: {}", short.chars().take(160).collect::<String>()), 1);
        // the compiler lowers struct patterns whose fields are not in declaration order wrongly and
        // may even panic on them: keep the wasm coverage of the other functions of this program
        let rest: Vec<&(usize, Oracle)> = runnable.iter().filter(|(fi, _)| !funcs[*fi].rows.iter().any(|r| sort_obj(r) != *r)).collect();
        if !rest.is_empty() && rest.len() < runnable.len() {
          let (text3, expected3) = phase2(d, funcs, &names, &rest);
          if let Ok(trace) = run_wasm_text(&text3) {
            if count {
              st.bump("runtime:programs-through-wasm-after-dropping-reordered-struct-patterns");
            }
            compare(&trace, &expected3, "wasm", st, count, &mut out);
          }
        }
      }
    }
  }
  out
}

type Expected = Vec<(usize, usize, usize, String, String)>;

fn phase2(d: &[Class], funcs: &[Func], names: &[String], runnable: &[&(usize, Oracle)]) -> (String, Expected) {
  let quota = (300 / runnable.len().max(1)).max(1);
  let mut calls = Vec::new();
  let mut expected = Vec::new();
  for (fi, orc) in runnable {
    let n = orc.vals.len();
    let idx: Vec<usize> = if n <= quota { (0..n).collect() } else { (0..quota).map(|j| j * n / quota).collect() };
    for vi in idx {
      let call = call_str(d, &funcs[*fi], &names[*fi], &orc.vals[vi]);
      calls.push(call.clone());
      expected.push((*fi, vi, expected_arm(&funcs[*fi], orc, vi), call, val_str(d, &orc.vals[vi])));
    }
  }
  let named2: Vec<(String, &Func)> = runnable.iter().map(|(fi, _)| (names[*fi].clone(), &funcs[*fi])).collect();
  (program_str(d, None, &named2, &calls).0, expected)
}

fn run_wasm_text(text: &str) -> Result<vcore::trace::Trace, String> {
  run_wasm(text)
}

// ------------------------------------------------------------------------------------------------
// minimisation
// ------------------------------------------------------------------------------------------------

fn types_inhabited(d: &[Class], t: &Ty) -> bool {
  let mut r = BTreeSet::new();
  reachable_types(d, t, &mut r, 200);
  r.iter().all(|x| min_depth(d, x, &mut vec![]).is_some())
}

fn shrinks(d: &[Class], f: &Func) -> Vec<(Vec<Class>, Func)> {
  let mut out = Vec::new();
  if f.kind == FKind::Match && f.rows.len() > 1 {
    for i in 0..f.rows.len() {
      let mut g = f.clone();
      g.rows.remove(i);
      out.push((d.to_vec(), g));
    }
  }
  if f.tuple_expr {
    let mut g = f.clone();
    g.tuple_expr = false;
    out.push((d.to_vec(), g));
  }
  // drop variants that no pattern mentions
  let mut used = BTreeSet::new();
  for r in &f.rows {
    mentioned(d, r, &f.ty, &mut used);
  }
  for c in reachable_classes(d, &f.ty) {
    if let Kind::Enum(vs) = &d[c].kind {
      for (k, (n, _)) in vs.iter().enumerate() {
        if used.contains(&(c, n.clone())) || vs.len() < 2 {
          continue;
        }
        let mut d2 = d.to_vec();
        if let Kind::Enum(vs2) = &mut d2[c].kind {
          vs2.remove(k);
        }
        if types_inhabited(&d2, &f.ty) {
          out.push((d2, f.clone()));
        }
      }
      // drop the payloads of a variant that no pattern mentions
      for (k, (n, ps)) in vs.iter().enumerate() {
        if used.contains(&(c, n.clone())) || ps.is_empty() {
          continue;
        }
        let mut d2 = d.to_vec();
        if let Kind::Enum(vs2) = &mut d2[c].kind {
          vs2[k].1.clear();
        }
        out.push((d2, f.clone()));
      }
    }
  }
  for (ri, row) in f.rows.iter().enumerate() {
    let sorted = sort_obj(row);
    if sorted != *row {
      let mut g = f.clone();
      g.rows[ri] = sorted;
      out.push((d.to_vec(), g));
    }
    let mut paths = Vec::new();
    all_paths(row, &mut vec![], &mut paths);
    for p in paths {
      let Some(node) = get_at(row, &p) else { continue };
      let mut reps: Vec<Pat> = Vec::new();
      if !matches!(node, Pat::Wild) {
        reps.push(Pat::Wild);
      }
      if let Pat::Or(alts) = node {
        reps.extend(alts.iter().cloned());
        if alts.len() > 2 {
          for k in 0..alts.len() {
            let mut a = alts.clone();
            a.remove(k);
            reps.push(Pat::Or(a));
          }
        }
      }
      for r in reps {
        let mut g = f.clone();
        // binding consistency inside or-patterns: a replaced sub-pattern may drop a binding
        let new_row = normalise(replace_at(row, &p, &r));
        g.rows[ri] = if has_or(&new_row) && new_row != *row { strip_or_bindings(&new_row) } else { new_row };
        out.push((d.to_vec(), g));
      }
    }
  }
  out
}

/// remove variable bindings inside or-patterns (keeps the alternatives' binding sets equal)
fn strip_or_bindings(p: &Pat) -> Pat {
  match p {
    Pat::Or(_) => strip_bindings(p),
    Pat::Ctor(n, ps) => Pat::Ctor(n.clone(), ps.iter().map(strip_or_bindings).collect()),
    Pat::Tup(ps) => Pat::Tup(ps.iter().map(strip_or_bindings).collect()),
    Pat::Obj(fs) => Pat::Obj(fs.iter().map(|(i, n, s)| (*i, n.clone(), s.as_ref().map(strip_or_bindings))).collect()),
    _ => p.clone(),
  }
}

fn reproduces(d: &[Class], f: &Func, class: &str) -> Option<Finding> {
  let mut scratch = Stats::default();
  let o = process(d, std::slice::from_ref(f), class.ends_with(":ref"), class.ends_with(":wasm"), &mut scratch, false);
  if !o.generator.is_empty() {
    return None;
  }
  o.findings.into_iter().map(|(_, x)| x).find(|x| x.class == class)
}

/// any run-time finding of the same executor as `class`
fn reproduces_family(d: &[Class], f: &Func, class: &str) -> Option<Finding> {
  if !class.starts_with("runtime-") {
    return None;
  }
  let exec = class.rsplit(':').next().unwrap_or("");
  let mut scratch = Stats::default();
  let o = process(d, std::slice::from_ref(f), exec == "ref", exec == "wasm", &mut scratch, false);
  if !o.generator.is_empty() {
    return None;
  }
  o.findings.into_iter().map(|(_, x)| x).find(|x| x.class.starts_with("runtime-") && x.class.ends_with(exec))
}

fn minimise(d0: &[Class], f0: &Func, first: Finding) -> (Vec<Class>, Func, Finding, u32) {
  let (mut d, mut f, mut fd) = (d0.to_vec(), f0.clone(), first);
  let class = fd.class.clone();
  let mut budget = 160u32;
  let mut steps = 0u32;
  loop {
    let mut changed = false;
    for (d2, f2) in shrinks(&d, &f) {
      if budget == 0 {
        break;
      }
      budget -= 1;
      if let Some(x) = reproduces(&d2, &f2, &class) {
        d = d2;
        f = f2;
        fd = x;
        changed = true;
        steps += 1;
        break;
      }
    }
    if !changed || budget == 0 {
      break;
    }
  }
  (d, f, fd, steps)
}

fn replay_text(d: &[Class], f: &Func, fd: &Finding, original: &str) -> String {
  let only = reachable_classes(d, &f.ty);
  let calls: Vec<String> = fd.call.iter().cloned().collect();
  let (text, _) = program_str(d, Some(&only), &[("m0".to_string(), f)], &calls);
  let diags = match check_text(&text) {
    Ok(ds) if ds.is_empty() => "(none: the module is accepted)".to_string(),
    Ok(ds) => ds.iter().map(|x| format!("line {}: {:?}", x.line + 1, x.kind)).collect::<Vec<_>>().join("\n"),
    Err(p) => format!("PANIC {p}"),
  };
  format!(
    "failure class: {}\n{}\nwitness value: {}\nscrutinee type: {}\n\n--- minimised module (module name T, with std.tuples) ---\n{}\n--- diagnostics of the real checker on the minimised module ---\n{}\n\n--- function as generated (before minimisation) ---\n{}\n",
    fd.class,
    fd.what,
    if fd.witness.is_empty() { "(none)" } else { &fd.witness },
    ty_str(d, &f.ty),
    text,
    diags,
    original
  )
}

fn report(st: &mut Stats, d: &[Class], f: &Func, fd: Finding, seed_info: &str) {
  let raw = features(d, f);
  let coarse = if raw.obj_reordered {
    "reordered-struct-pattern"
  } else if raw.single_rec {
    "recursive-single-payload"
  } else if raw.single_cls {
    "single-class-payload"
  } else if raw.recursive {
    "recursive"
  } else {
    "non-recursive"
  };
  let key = format!("{}|{}", fd.class, coarse);
  st.bump(&format!("violations-raw:{key}"));
  let seen = st.minimised.entry(key.clone()).or_insert(0);
  if *seen >= if selftest() { 1 } else { 2 } {
    st.bump(&format!("violations-not-minimised(same class and type shape as a reported one):{key}"));
    return;
  }
  *seen += 1;
  let original = format!("{}\n{}", reachable_classes(d, &f.ty).iter().map(|c| class_str(d, &d[*c])).collect::<Vec<_>>().join("\n"), func_str(d, f, "m0"));
  // the call text of a runtime finding names the function as in its program: rename to m0
  let mut fd = fd;
  if let Some(c) = &fd.call {
    if let Some(k) = c.find("Main.m").and_then(|s| c[s + 6..].find('(').map(|e| (s + 6, s + 6 + e))) {
      fd.call = Some(format!("{}0{}", &c[..k.0], &c[k.1..]));
    }
  }
  let (d2, f2, fd2, steps) = minimise(d, f, fd);
  let ft = features(&d2, &f2);
  let sig = format!("{}:{}", fd2.class, shape_suffix(&ft, &fd2.class));
  let what = format!("{} [{}; minimised in {} steps; {}]", fd2.what, func_str(&d2, &f2, "m0"), steps, seed_info);
  let replay = replay_text(&d2, &f2, &fd2, &original);
  st.violations.push((sig, what, replay));
}

// ------------------------------------------------------------------------------------------------
// worker loop
// ------------------------------------------------------------------------------------------------

const FUNCS_PER_PROGRAM: usize = 10;

fn record_shapes(st: &mut Stats, d: &[Class], f: &Func) {
  let ft = features(d, f);
  let kind = match f.kind {
    FKind::Match => "match",
    FKind::IfLet => "if-let",
    FKind::Let => "let",
  };
  st.bump(&format!("kind:{kind}"));
  st.bump(&format!("shape:pattern-depth-{}", ft.depth));
  for (on, name) in [
    (ft.or_pat, "or-pattern"),
    (ft.obj_pat, "struct-pattern-syntax"),
    (ft.obj_reordered, "struct-pattern-with-reordered-fields"),
    (ft.strukt, "struct-class"),
    (ft.recursive, "recursive-enum"),
    (ft.single_rec, "recursive-enum-single-payload"),
    (ft.single_cls, "enum-variant-with-single-class-payload"),
    (ft.mutual, "mutually-recursive-classes"),
    (ft.generic, "generic-class"),
    (ft.tuple, "tuple"),
    (f.tuple_expr, "tuple-expression-scrutinee"),
    (ft.name_collision, "same-variant-name-in-two-enums"),
    (f.kind == FKind::Match && f.rows.len() >= 4, "match-with-4-or-more-rows"),
  ] {
    if on {
      st.bump(&format!("shape:{name}"));
    }
  }
  let decl_text: String = reachable_classes(d, &f.ty).iter().map(|c| class_str(d, &d[*c])).collect::<Vec<_>>().join("\n");
  st.hashes.insert(hash_str(&format!("{decl_text}\n{}", func_str(d, f, "m"))));
}

fn worker(t: u64, nthreads: u64, nprog: u64, seed: u64, wasm_every: u64) -> Stats {
  let mut st = Stats::default();
  let mut k = t;
  while k < nprog {
    let pseed = seed.wrapping_mul(0x9E3779B97F4A7C15).wrapping_add(k.wrapping_mul(0xD1B54A32D192ED03));
    let mut rng = Rng::new(pseed);
    let d = gen_decls(&mut rng);
    let mut funcs = Vec::new();
    for _ in 0..FUNCS_PER_PROGRAM {
      if let Some(f) = gen_func(&mut rng, &d, &mut st) {
        funcs.push(f);
      }
    }
    let run_wasm = k % wasm_every == 0;
    st.bump("programs");
    let out = process(&d, &funcs, true, run_wasm, &mut st, true);
    let info = format!("VERIF_SEED={seed} program {k}");
    if !out.generator.is_empty() {
      st.inconclusive("generator: program with a diagnostic other than exhaustiveness/usefulness", funcs.len() as u64);
      st.bump("generator:programs-with-foreign-diagnostics");
      if st.generator_error_samples.len() < 4 {
        st.generator_error_samples.push(format!("{info}: {}", out.generator[0]));
      }
    } else {
      st.add("functions-judged", funcs.len() as u64);
      for f in &funcs {
        record_shapes(&mut st, &d, f);
      }
      if st.samples.len() < 1 && k % 7 == 3 {
        let named: Vec<(String, &Func)> = funcs.iter().enumerate().map(|(i, f)| (format!("m{i}"), f)).collect();
        st.samples.push(json!(program_str(&d, None, &named, &[]).0));
      }
    }
    for (fi, fd) in out.findings {
      if fi == usize::MAX {
        // checker panic on the whole program: find a single function that reproduces it
        let culprit = funcs.iter().find(|f| reproduces(&d, f, &fd.class).is_some());
        match culprit {
          Some(f) => report(&mut st, &d, f, fd, &info),
          None => {
            let named: Vec<(String, &Func)> = funcs.iter().enumerate().map(|(i, f)| (format!("m{i}"), f)).collect();
            st.violations.push((fd.class.clone(), format!("{} [{info}]", fd.what), program_str(&d, None, &named, &[]).0));
          }
        }
      } else if reproduces(&d, &funcs[fi], &fd.class).is_some() {
        report(&mut st, &d, &funcs[fi], fd, &info);
      } else {
        // not reproducible with this function alone: an invalid module is a property of the whole
        // program, and a run over all values of one function may stop at an earlier fault of another
        // class.  Look for the same class in another function, then for any run-time class of the
        // same executor in this function.
        let other = funcs
          .iter()
          .find_map(|f| reproduces(&d, f, &fd.class).map(|x| (f, x)))
          .or_else(|| reproduces_family(&d, &funcs[fi], &fd.class).map(|x| (&funcs[fi], x)))
          .or_else(|| funcs.iter().find_map(|f| reproduces_family(&d, f, &fd.class).map(|x| (f, x))));
        match other {
          Some((f, x)) => report(&mut st, &d, f, x, &info),
          None => {
            st.bump(&format!("violations-raw:{}|only-in-program-context", fd.class));
            let named: Vec<(String, &Func)> = funcs.iter().enumerate().map(|(i, f)| (format!("m{i}"), f)).collect();
            st.violations.push((
              format!("{}:only-in-program-context", fd.class),
              format!("{} [not reproducible with any single function of the program; {info}]", fd.what),
              format!("witness call: {}\n\n--- all generated functions (the run-time program holds the accepted ones plus a main) ---\n{}", fd.call.clone().unwrap_or_default(), program_str(&d, None, &named, &[]).0),
            ));
          }
        }
      }
    }
    k += nthreads;
  }
  st
}

// ------------------------------------------------------------------------------------------------
// probe (debugging aid)
// ------------------------------------------------------------------------------------------------

fn probe(path: &str) {
  let text = std::fs::read_to_string(path).expect("readable file");
  let mut heap = Heap::new();
  let p = project(&text);
  let t0 = std::time::Instant::now();
  let c = front::check_project(&mut heap, &p);
  println!("check: {:?}", t0.elapsed());
  for e in c.errors.errors() {
    let ide = e.to_ide_format(&heap, &c.handles);
    println!("{} {:?}\n   {}", e.location.pretty_print(&heap), e.detail, ide.ide_error.replace('\n', "\n   "));
  }
  if !c.errors.has_errors() {
    let entry = front::mod_ref(&mut heap, "T");
    let (t, _) = vcore::refint::run(&heap, &c.checked, entry, &limits());
    println!("ref:  {:?} {:?}", t.lines, t.ending);
    match run_wasm(&text) {
      Ok(t) => println!("wasm: {:?} {:?}", t.lines, t.ending),
      Err(e) => println!("wasm: {e}"),
    }
  }
}

fn main() {
  let args: Vec<String> = std::env::args().collect();
  vcore::pool::install_hook();
  if args.get(1).map(|s| s.as_str()) == Some("probe") {
    for f in &args[2..] {
      println!("== {f}");
      probe(f);
    }
    return;
  }
  let tier = args.get(1).cloned().unwrap_or_else(|| env_tier("quick"));
  let seed = env_seed();
  let mut run = Run::new("C07", &tier, seed, "exploration");
  let thorough = tier == "thorough";
  let (nprog, wasm_every): (u64, u64) = if selftest() {
    (300, 10)
  } else if thorough {
    (100_000, 8)
  } else {
    (10_000, 10)
  };
  let nprog = std::env::var("C07_PROGRAMS").ok().and_then(|s| s.parse().ok()).unwrap_or(nprog);
  let nthreads = 16u64;
  let parts: Vec<Stats> = std::thread::scope(|sc| {
    let hs: Vec<_> = (0..nthreads)
      .map(|t| std::thread::Builder::new().stack_size(64 << 20).spawn_scoped(sc, move || worker(t, nthreads, nprog, seed, wasm_every)).unwrap())
      .collect();
    hs.into_iter().map(|h| h.join().expect("worker thread")).collect()
  });
  let mut st = Stats::default();
  for p in parts {
    st.merge(p);
  }
  let judged = st.counters.get("functions-judged").copied().unwrap_or(0);
  let gen_bad: u64 = st.inconclusive.iter().filter(|(k, _)| k.starts_with("generator")).map(|(_, v)| *v).sum();
  run.evaluations = judged;
  run.distinct_nontrivial = st.hashes.len() as u64;
  run.rule = "one evaluation = one generated (type declarations, pattern matrix) pair checked by the real front end and judged against the brute-force oracle; distinct_nontrivial = number of distinct pairs by hash of (declarations reachable from the scrutinee type, function text)".into();
  let group = |prefix: &str| -> serde_json::Value {
    json!(st.counters.iter().filter(|(k, _)| k.starts_with(prefix)).map(|(k, v)| (k[prefix.len()..].to_string(), *v)).collect::<BTreeMap<_, _>>())
  };
  run.cov("programs", json!(st.counters.get("programs").copied().unwrap_or(0)));
  run.cov("functions_by_kind", group("kind:"));
  run.cov("verdict_classes", group("verdict:"));
  run.cov("verdict_by_generation_mode", group("mode:"));
  run.cov("shape_classes", group("shape:"));
  run.cov("values", json!({"enumerated_total": st.counters.get("values:enumerated-total").copied().unwrap_or(0), "max_per_scrutinee": st.vals_max, "cap_per_scrutinee": VAL_CAP}));
  run.cov("counterexamples", group("counterexamples:"));
  run.cov("runtime", group("runtime:"));
  run.cov("redundant_arms", json!({
    "oracle_arms_total": st.counters.get("oracle:arms-total").copied().unwrap_or(0),
    "oracle_arms_no_value_reaches": st.counters.get("oracle:redundant-arms(no value reaches them)").copied().unwrap_or(0),
    "checker_reports_only_pattern_false": st.counters.get("checker:redundant-arm-reports(only_pattern=false)").copied().unwrap_or(0),
  }));
  run.cov("generator", json!({
    "counters": group("generator:"),
    "functions_in_programs_with_foreign_diagnostics": gen_bad,
    "fraction": if judged + gen_bad > 0 { gen_bad as f64 / (judged + gen_bad) as f64 } else { 0.0 },
    "samples": st.generator_error_samples,
  }));
  run.cov(
    "compiler_panics_on_accepted_programs",
    json!(st.compile_panics.iter().map(|(m, t)| json!({"message": m, "module": t})).collect::<Vec<_>>()),
  );
  run.cov("violations_raw_by_class_and_type_shape", group("violations-raw:"));
  run.cov("violations_not_minimised", group("violations-not-minimised"));
  run.cov("selftest_oracle_broken_on_purpose", json!(selftest()));
  for (k, v) in &st.inconclusive {
    run.inconclusive.insert(k.clone(), *v);
  }
  for s in st.samples.drain(..) {
    run.sample(s);
  }
  if judged + gen_bad > 0 && gen_bad * 50 > judged + gen_bad {
    run.harness_errors.push(format!("generator produced foreign diagnostics for {gen_bad} of {} functions (>= 2%)", judged + gen_bad));
  }
  for (sig, what, replay) in st.violations.drain(..) {
    run.violation(sig, what, replay);
  }
  run.assumptions = vec![
    "values are enumerated with every constructor down to (max pattern nesting depth + 1) levels; below the cut each component is the shallowest inhabitant of its type (patterns cannot look below their own depth, so this is complete for the generated matrices)".into(),
    "int components take the single value 3 and bool components both values: no literal patterns exist, so primitives are only matched by variables / wildcards".into(),
    format!("scrutinee types whose value space at that depth exceeds {VAL_CAP} values are regenerated (counted under generator)"),
    "redundant match arms are not judged (the checker never reports them); only the counts are recorded".into(),
    "run-time execution covers at most 300 (function, value) pairs per program, values sampled evenly from the enumeration".into(),
    "the reference interpreter (vcore::refint) and the WasmGC interpreter (vcore::wasmi) are calibrated separately (calib_ref / calib_wasm)".into(),
  ];
  std::process::exit(run.finish());
}

