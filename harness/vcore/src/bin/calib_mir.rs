//! Calibration of the MIR interpreter (vcore::mirint).
//!
//! 1. tests.AllTests of the repository project must print /repo/tests/snapshot.txt byte for byte
//!    and end with Ending::Return on the unoptimized MIR and on the MIR optimized with
//!    ALL_ENABLED, ALL_DISABLED and a set of other OptimizationConfiguration combinations.
//! 2. small hand-written programs with known endings (panic, Vec bounds, arithmetic traps, deep
//!    loops, stack exhaustion, enum round trips), each before and after optimization.
//! 3. hand-built ill-formed MIR must end in Ending::Fault.
//!
//! `calib_mir dump <file.sam>` prints the MIR of a single-module program before/after
//! optimization (debugging aid).
//!
//! exit code 0 = everything as expected, 1 = deviation (with a diff on stderr).

use samlang_ast::hir::BinaryOperator;
use samlang_ast::mir;
use samlang_heap::{Heap, ModuleReference, PStr};
use samlang_optimization::OptimizationConfiguration;
use std::time::Instant;
use vcore::front;
use vcore::mirint::{self, MirStats, Options, Program};
use vcore::trace::{Ending, Limits, Trace};

static FAILURES: std::sync::atomic::AtomicU32 = std::sync::atomic::AtomicU32::new(0);

fn fail(msg: &str) {
  eprintln!("FAIL: {msg}");
  FAILURES.fetch_add(1, std::sync::atomic::Ordering::SeqCst);
}

fn cfg(lvn: bool, cse: bool, lp: bool, inl: bool, sr: bool) -> OptimizationConfiguration {
  OptimizationConfiguration {
    does_perform_local_value_numbering: lvn,
    does_perform_common_sub_expression_elimination: cse,
    does_perform_loop_optimization: lp,
    does_perform_inlining: inl,
    does_perform_scalar_replacement: sr,
  }
}

fn cfg_name(c: &OptimizationConfiguration) -> String {
  format!(
    "lvn={} cse={} loop={} inline={} sr={}",
    c.does_perform_local_value_numbering as u8,
    c.does_perform_common_sub_expression_elimination as u8,
    c.does_perform_loop_optimization as u8,
    c.does_perform_inlining as u8,
    c.does_perform_scalar_replacement as u8
  )
}

/// fresh heap, real front end, real lowering, optional real optimizer
fn lower(
  p: &front::Project,
  entry: &str,
  c: Option<&OptimizationConfiguration>,
) -> (Heap, mir::Sources, ModuleReference) {
  let mut heap = Heap::new();
  let checked = front::check_project(&mut heap, p);
  if checked.errors.has_errors() {
    eprintln!("{}", checked.errors.pretty_print_error_messages(&heap, &checked.handles));
    panic!("project does not type check");
  }
  let entry = front::mod_ref(&mut heap, entry);
  let mut mir = samlang_compiler::compile_sources_to_mir(&mut heap, &checked.checked);
  if let Some(c) = c {
    mir = samlang_optimization::optimize_sources(&mut heap, mir, c);
  }
  (heap, mir, entry)
}

fn first_diff(expected: &str, actual: &str) -> String {
  let e: Vec<&str> = expected.split('\n').collect();
  let a: Vec<&str> = actual.split('\n').collect();
  for i in 0..e.len().max(a.len()) {
    let (x, y) = (e.get(i), a.get(i));
    if x != y {
      return format!("first difference at line {}:\n  expected: {:?}\n  actual:   {:?}", i + 1, x, y);
    }
  }
  "no line difference (length differs?)".to_string()
}

fn calib_all_tests() {
  let snapshot = std::fs::read_to_string("/repo/tests/snapshot.txt").expect("snapshot.txt");
  let project = front::repo_project();
  let mut configs: Vec<(String, Option<OptimizationConfiguration>)> = vec![
    ("unoptimized".to_string(), None),
    ("ALL_ENABLED".to_string(), Some(samlang_optimization::ALL_ENABLED_CONFIGURATION)),
    ("ALL_DISABLED".to_string(), Some(samlang_optimization::ALL_DISABLED_CONFIGURATION)),
  ];
  for c in [
    cfg(true, false, false, false, false),
    cfg(false, true, false, false, false),
    cfg(false, false, true, false, false),
    cfg(false, false, false, true, false),
    cfg(false, false, false, false, true),
    cfg(true, true, false, false, false),
    cfg(false, false, true, true, false),
    cfg(false, false, false, true, true),
    cfg(true, true, true, false, true),
    cfg(true, true, false, true, true),
    cfg(false, true, true, true, false),
  ] {
    configs.push((cfg_name(&c), Some(c)));
  }
  let limits = Limits { max_steps: 2_000_000_000, max_depth: 100_000, max_lines: 1_000_000 };
  for (name, c) in &configs {
    let t0 = Instant::now();
    let (heap, mir, entry) = lower(&project, "tests.AllTests", c.as_ref());
    let t_lower = t0.elapsed();
    let t1 = Instant::now();
    let prog = Program::new(&heap, &mir);
    let t_compile = t1.elapsed();
    let t2 = Instant::now();
    let (trace, stats) = prog.run_main(entry, &limits);
    let t_run = t2.elapsed();
    println!(
      "AllTests [{name}]: functions={} ending={:?} lines={} steps={} calls={} loop_iters={} max_depth={} ub={:?} | lower {:.0?} compile {:.1?} run {:.1?}",
      mir.functions.len(),
      trace.ending,
      trace.lines.len(),
      stats.steps,
      stats.calls,
      stats.loop_iterations,
      stats.max_depth,
      trace.ub,
      t_lower,
      t_compile,
      t_run
    );
    if trace.ending != Ending::Return {
      fail(&format!("AllTests [{name}]: ending {:?}, expected Return", trace.ending));
      let n = trace.lines.len();
      for l in &trace.lines[n.saturating_sub(5)..] {
        eprintln!("    | {l}");
      }
    }
    let out = trace.stdout();
    if out != snapshot {
      fail(&format!("AllTests [{name}]: stdout differs from snapshot.txt\n{}", first_diff(&snapshot, &out)));
    }
    // the free function API must agree with the Program API
    if name == "unoptimized" {
      let (t2, s2) = mirint::run_main(&heap, &mir, entry, &limits);
      if t2 != trace || s2 != stats {
        fail("run_main (free function) disagrees with Program::run_main");
      }
    }
  }
}

struct Small {
  name: &'static str,
  text: String,
  check: Box<dyn Fn(&str, &Trace, &MirStats) -> Result<(), String>>,
  limits: Limits,
  options: Options,
}

fn expect_lines(t: &Trace, lines: &[&str]) -> Result<(), String> {
  let want: Vec<String> = lines.iter().map(|s| s.to_string()).collect();
  if t.lines != want {
    return Err(format!(
      "lines differ\n{}",
      first_diff(&want.join("\n"), &t.lines.join("\n"))
    ));
  }
  Ok(())
}

fn expect_ending(t: &Trace, e: &Ending) -> Result<(), String> {
  if &t.ending != e {
    return Err(format!("ending {:?}, expected {:?}", t.ending, e));
  }
  Ok(())
}

fn smalls() -> Vec<Small> {
  let d = Limits::default();
  let mut v = Vec::new();
  v.push(Small {
    name: "println+panic",
    text: r#"
class Main {
  function main(): unit = {
    let _ = Process.println("hello");
    let _ = Process.println(Str.fromInt(1 + "2".toInt()));
    let _ = Process.panic<unit>("boom");
    Process.println("not reached")
  }
}"#
      .to_string(),
    check: Box::new(|_, t, _| {
      expect_lines(t, &["hello", "3"])?;
      expect_ending(t, &Ending::Panic("boom".to_string()))
    }),
    limits: d,
    options: Options::default(),
  });
  for (name, body) in [
    ("vec-get-oob", "let v = Vec.of(1); let _ = Process.println(\"a\"); Process.println(Str.fromInt(v.get(\"5\".toInt())))"),
    ("vec-get-negative", "let v = Vec.of(1); let _ = Process.println(\"a\"); Process.println(Str.fromInt(v.get(\"-1\".toInt())))"),
    ("vec-set-oob", "let v = Vec.of(1); let _ = Process.println(\"a\"); v.set(\"1\".toInt(), 3)"),
    ("vec-pop-empty", "let v = Vec.of(1); let _ = Process.println(\"a\"); let _ = v.pop(); let _ = v.pop(); Process.println(\"no\")"),
  ] {
    v.push(Small {
      name,
      text: format!("class Main {{ function main(): unit = {{ {body} }} }}"),
      check: Box::new(|_, t, _| {
        expect_lines(t, &["a"])?;
        expect_ending(t, &Ending::VecBounds)
      }),
      limits: d,
      options: Options::default(),
    });
  }
  v.push(Small {
    name: "vec-ops",
    text: r#"
class Main {
  function main(): unit = {
    let v = Vec.empty<int>();
    let _ = v.push(10);
    let _ = v.push(20);
    let _ = v.push(30);
    let _ = v.set(1, 25);
    let _ = Process.println(Str.fromInt(v.length()));
    let _ = Process.println(Str.fromInt(v.get(0) + v.get(1) + v.get(2)));
    let _ = Process.println(Str.fromInt(v.pop()));
    let _ = Process.println(Str.fromInt(v.length()));
    let w = Vec.of(10);
    let _ = w.push(25);
    let _ = if v.eq(w) { Process.println("eq") } else { Process.println("ne") };
    let big = Vec.of(1073741824);
    let _ = big.push(-1073741825);
    let _ = Process.println(Str.fromInt(big.get(0)));
    Process.println(Str.fromInt(big.get(1)))
  }
}"#
      .to_string(),
    check: Box::new(|_, t, _| {
      expect_lines(t, &["3", "65", "30", "2", "eq", "1073741824", "-1073741825"])?;
      expect_ending(t, &Ending::Return)
    }),
    limits: d,
    options: Options::default(),
  });
  v.push(Small {
    name: "vec-int-i31-truncation-option",
    text: r#"
class Main {
  function main(): unit = {
    let big = Vec.of(1073741824);
    let _ = big.push(-1073741825);
    let _ = big.push(1073741823);
    let _ = Process.println(Str.fromInt(big.get(0)));
    let _ = Process.println(Str.fromInt(big.get(1)));
    Process.println(Str.fromInt(big.get(2)))
  }
}"#
      .to_string(),
    check: Box::new(|_, t, _| {
      expect_lines(t, &["-1073741824", "1073741823", "1073741823"])?;
      expect_ending(t, &Ending::Return)
    }),
    limits: d,
    options: Options { vec_int_i31_truncation: true },
  });
  for (name, expr, msg) in [
    ("div-by-zero", "10 / \"0\".toInt()", "integer divide by zero"),
    ("mod-by-zero", "10 % \"0\".toInt()", "integer divide by zero"),
    ("int-min-div-minus-one", "(\"-2147483648\".toInt()) / (\"-1\".toInt())", "integer overflow"),
  ] {
    v.push(Small {
      name,
      text: format!(
        "class Main {{ function main(): unit = {{ let _ = Process.println(\"before\"); let x = {expr}; Process.println(Str.fromInt(x)) }} }}"
      ),
      check: Box::new(move |_, t, _| {
        expect_lines(t, &["before"])?;
        expect_ending(t, &Ending::ArithTrap(msg.to_string()))?;
        if !t.ub.div_zero {
          return Err("ub.div_zero not set".to_string());
        }
        Ok(())
      }),
      limits: d,
      options: Options::default(),
    });
  }
  v.push(Small {
    name: "int-min-mod-minus-one+wrapping",
    text: r#"
class Main {
  function main(): unit = {
    let m = "-2147483648".toInt();
    let _ = Process.println(Str.fromInt(m % "-1".toInt()));
    let _ = Process.println(Str.fromInt("2147483647".toInt() + "1".toInt()));
    let _ = Process.println(Str.fromInt(m - "1".toInt()));
    let _ = Process.println(Str.fromInt("65536".toInt() * "65537".toInt()));
    let _ = Process.println(Str.fromInt((0 - 7) / "2".toInt()));
    Process.println(Str.fromInt((0 - 7) % "2".toInt()))
  }
}"#
      .to_string(),
    check: Box::new(|_, t, _| {
      expect_lines(t, &["0", "-2147483648", "2147483647", "65536", "-3", "-1"])?;
      expect_ending(t, &Ending::Return)?;
      if !t.ub.overflow {
        return Err("ub.overflow not set".to_string());
      }
      Ok(())
    }),
    limits: d,
    options: Options::default(),
  });
  v.push(Small {
    name: "tail-recursive-loop-1M",
    text: r#"
class Main {
  function loop(n: int, acc: int): int = if n == 0 { acc } else { Main.loop(n - 1, acc + n % 7) }
  function main(): unit = Process.println(Str.fromInt(Main.loop("1000000".toInt(), 0)))
}"#
      .to_string(),
    check: Box::new(|_, t, s| {
      let expected: i64 = (1..=1_000_000i64).map(|n| n % 7).sum();
      expect_lines(t, &[&expected.to_string()])?;
      expect_ending(t, &Ending::Return)?;
      // the MIR tail-recursion rewrite already turns the self call into a While before any
      // optimization, so both variants run as a loop at depth <= 2
      if s.max_depth > 2 {
        return Err(format!("max_depth {} (expected a loop, depth <= 2)", s.max_depth));
      }
      if s.loop_iterations < 1_000_000 {
        return Err(format!("loop_iterations {}", s.loop_iterations));
      }
      Ok(())
    }),
    limits: d,
    options: Options::default(),
  });
  v.push(Small {
    name: "deep-non-tail-recursion-within-depth",
    text: r#"
class Main {
  function sum(n: int): int = if n == 0 { 0 } else { n + Main.sum(n - 1) }
  function main(): unit = Process.println(Str.fromInt(Main.sum("200000".toInt())))
}"#
      .to_string(),
    check: Box::new(|_, t, s| {
      let expected: i64 = (1..=200_000i64).sum::<i64>();
      expect_lines(t, &[&(expected as i32).to_string()])?;
      expect_ending(t, &Ending::Return)?;
      if s.max_depth < 1000 {
        return Err(format!("max_depth {} suspiciously small", s.max_depth));
      }
      Ok(())
    }),
    limits: Limits { max_steps: 50_000_000, max_depth: 1_000_000, max_lines: 1000 },
    options: Options::default(),
  });
  v.push(Small {
    name: "infinite-non-tail-recursion",
    text: r#"
class Main {
  function f(n: int): int = 1 + Main.f(n + 1)
  function main(): unit = {
    let _ = Process.println("start");
    Process.println(Str.fromInt(Main.f("0".toInt())))
  }
}"#
      .to_string(),
    check: Box::new(|_, t, s| {
      expect_lines(t, &["start"])?;
      expect_ending(t, &Ending::StackExhausted)?;
      if s.max_depth != Limits::default().max_depth {
        return Err(format!("max_depth {} != limit {}", s.max_depth, Limits::default().max_depth));
      }
      Ok(())
    }),
    limits: d,
    options: Options::default(),
  });
  v.push(Small {
    name: "infinite-loop-step-limit",
    text: r#"
class Main {
  function spin(n: int): int = if n == 0 - 1 { 0 } else { Main.spin(n % 3) }
  function main(): unit = Process.println(Str.fromInt(Main.spin("5".toInt())))
}"#
      .to_string(),
    check: Box::new(|_, t, _| expect_ending(t, &Ending::StepLimit)),
    limits: Limits { max_steps: 200_000, max_depth: 4000, max_lines: 1000 },
    options: Options::default(),
  });
  v.push(Small {
    name: "enum-opt-round-trip",
    text: r#"
class Opt(None, Some(int)) {
  function show(o: Opt): unit = match o {
    None -> Process.println("none"),
    Some(v) -> Process.println("some " :: Str.fromInt(v)),
  }
  function inc(o: Opt): Opt = match o { None -> Opt.None(), Some(v) -> Opt.Some(v + 1) }
}
class Main {
  function main(): unit = {
    let _ = Opt.show(Opt.None());
    let _ = Opt.show(Opt.Some(0));
    let _ = Opt.show(Opt.Some(-1));
    let _ = Opt.show(Opt.Some(-5));
    let _ = Opt.show(Opt.Some(1073741823));
    let _ = Opt.show(Opt.Some(1073741824));
    let _ = Opt.show(Opt.Some(-1073741824));
    let _ = Opt.show(Opt.Some(-1073741825));
    let _ = Opt.show(Opt.Some(2147483647));
    let _ = Opt.show(Opt.Some(-2147483648));
    let _ = Opt.show(Opt.inc(Opt.Some("1073741823".toInt())));
    let _ = Opt.show(Opt.inc(Opt.Some("-1073741825".toInt())));
    Opt.show(Opt.inc(Opt.None()))
  }
}"#
      .to_string(),
    check: Box::new(|_, t, _| {
      expect_lines(
        t,
        &[
          "none",
          "some 0",
          "some -1",
          "some -5",
          "some 1073741823",
          "some 1073741824",
          "some -1073741824",
          "some -1073741825",
          "some 2147483647",
          "some -2147483648",
          "some 1073741824",
          "some -1073741824",
          "none",
        ],
      )?;
      expect_ending(t, &Ending::Return)
    }),
    limits: d,
    options: Options::default(),
  });
  v.push(Small {
    name: "closures-strings-unboxed-enum",
    text: r#"
class Box(Wrap(Str)) {
  function get(b: Box): Str = match b { Wrap(s) -> s }
}
class Tree(Leaf, Node(Tree, int, Tree)) {
  function sum(t: Tree): int = match t { Leaf -> 0, Node(l, v, r) -> Tree.sum(l) + v + Tree.sum(r) }
  function build(d: int): Tree = if d == 0 { Tree.Leaf() } else { Tree.Node(Tree.build(d - 1), d, Tree.build(d - 1)) }
}
class Main {
  function apply(f: (int) -> int, x: int): int = f(x)
  function main(): unit = {
    let k = "7".toInt();
    let add = (x: int) -> x + k;
    let _ = Process.println(Str.fromInt(Main.apply(add, 35)));
    let _ = Process.println(Box.get(Box.Wrap("hi")));
    let b = Str.fromInt("1".toInt()) :: "b";
    let a = "1b";
    let _ = if a == b { Process.println("content-eq") } else { Process.println("identity-ne") };
    let _ = if a != "ac" { Process.println("ne-ok") } else { Process.println("ne-bad") };
    let _ = Process.println(Str.fromInt("12x".toInt()));
    let _ = Process.println(Str.fromInt("-12".toInt()));
    Process.println(Str.fromInt(Tree.sum(Tree.build("10".toInt()))))
  }
}"#
      .to_string(),
    check: Box::new(|_, t, _| {
      expect_lines(t, &["42", "hi", "content-eq", "ne-ok", "0", "-12", "2036"])?;
      expect_ending(t, &Ending::Return)?;
      if !t.ub.bad_to_int {
        return Err("ub.bad_to_int not set for \"12x\".toInt()".to_string());
      }
      Ok(())
    }),
    limits: d,
    options: Options::default(),
  });
  v.push(Small {
    name: "long-list-drop",
    text: r#"
class L(Nil, Cons(int, L)) {
  function build(n: int, acc: L): L = if n == 0 { acc } else { L.build(n - 1, L.Cons(n, acc)) }
  function len(l: L, acc: int): int = match l { Nil -> acc, Cons(_, t) -> L.len(t, acc + 1) }
}
class Main {
  function main(): unit = Process.println(Str.fromInt(L.len(L.build("1000000".toInt(), L.Nil()), 0)))
}"#
      .to_string(),
    check: Box::new(|_, t, _| {
      expect_lines(t, &["1000000"])?;
      expect_ending(t, &Ending::Return)
    }),
    limits: d,
    options: Options::default(),
  });
  v
}

fn calib_small() {
  for s in smalls() {
    let p = front::Project::single("Test", &s.text);
    for (vname, c) in [
      ("unopt", None),
      ("opt", Some(samlang_optimization::ALL_ENABLED_CONFIGURATION)),
      ("opt-noinline", Some(cfg(true, true, true, false, true))),
    ] {
      let (heap, mir, entry) = lower(&p, "Test", c.as_ref());
      let prog = Program::new(&heap, &mir).with_options(s.options);
      let t0 = Instant::now();
      let (trace, stats) = prog.run_main(entry, &s.limits);
      let dt = t0.elapsed();
      println!(
        "small {:40} [{:12}] ending={:?} lines={} steps={} calls={} loop_iters={} max_depth={} ub={}{}{}{} time={:.1?}",
        s.name,
        vname,
        trace.ending,
        trace.lines.len(),
        stats.steps,
        stats.calls,
        stats.loop_iterations,
        stats.max_depth,
        if trace.ub.overflow { "O" } else { "-" },
        if trace.ub.div_zero { "D" } else { "-" },
        if trace.ub.bad_to_int { "T" } else { "-" },
        if trace.ub.capacity_observed { "C" } else { "-" },
        dt
      );
      if let Err(e) = (s.check)(vname, &trace, &stats) {
        fail(&format!("small {} [{}]: {}", s.name, vname, e));
        if std::env::var("CALIB_DUMP").is_ok() {
          eprintln!("{}", mir.debug_print(&heap));
        }
      }
    }
  }
}

/// hand-built ill-formed MIR: each must be classified as Fault (or the documented ending)
fn calib_faults() {
  use mir::{Expression, Function, FunctionName, Sources, Statement, SymbolTable, Type, VariableName};
  let limits = Limits::default();
  let mut heap = Heap::new();
  let a = heap.alloc_str_for_test("a");
  let b = heap.alloc_str_for_test("b");
  let c = heap.alloc_str_for_test("c");
  let undefined_fn = heap.alloc_str_for_test("nowhere");
  let missing_string = heap.alloc_str_for_test("not a global");
  let mut table = SymbolTable::new();
  let s_ty = table.create_type_name_for_test(heap.alloc_str_for_test("S"));
  let t_ty = table.create_type_name_for_test(heap.alloc_str_for_test("T"));
  let int_fn = |body: Vec<Statement>, ret: Expression| Function {
    name: FunctionName::new_for_test(PStr::MAIN_FN),
    parameters: vec![],
    type_: Type::new_fn_unwrapped(vec![], Type::Int32),
    body,
    return_value: ret,
  };
  let var = |n: PStr, t: Type| Expression::Variable(VariableName { name: n, type_: t });
  let cases: Vec<(&str, Function, &str)> = vec![
    ("return of undefined variable", int_fn(vec![], var(a, Type::Int32)), "undefined variable"),
    (
      "late-init read before assignment",
      int_fn(
        vec![
          Statement::LateInitDeclaration { name: a, type_: Type::Int32 },
          Statement::binary(b, BinaryOperator::PLUS, var(a, Type::Int32), mir::ONE),
        ],
        var(b, Type::Int32),
      ),
      "undefined variable",
    ),
    (
      "indexed access on int",
      int_fn(
        vec![
          Statement::binary(a, BinaryOperator::PLUS, mir::ONE, mir::ONE),
          Statement::IndexedAccess {
            name: b,
            type_: Type::Int32,
            pointer_expression: var(a, Type::Id(s_ty)),
            index: 0,
          },
        ],
        var(b, Type::Int32),
      ),
      "field 0 read on a i32",
    ),
    (
      "indexed access out of range",
      int_fn(
        vec![
          Statement::StructInit {
            struct_variable_name: a,
            type_name: s_ty,
            expression_list: vec![mir::ONE, mir::ZERO],
          },
          Statement::IndexedAccess {
            name: b,
            type_: Type::Int32,
            pointer_expression: var(a, Type::Id(s_ty)),
            index: 2,
          },
        ],
        var(b, Type::Int32),
      ),
      "out of range",
    ),
    (
      "cast between struct types",
      int_fn(
        vec![
          Statement::StructInit {
            struct_variable_name: a,
            type_name: s_ty,
            expression_list: vec![mir::ONE, mir::ZERO],
          },
          Statement::Cast { name: b, type_: Type::Id(t_ty), assigned_expression: var(a, Type::Id(s_ty)) },
          Statement::IndexedAccess {
            name: c,
            type_: Type::Int32,
            pointer_expression: var(b, Type::Id(t_ty)),
            index: 2,
          },
        ],
        var(c, Type::Int32),
      ),
      "cast of a struct",
    ),
    (
      "call of undefined function",
      int_fn(
        vec![Statement::Call {
          callee: mir::Callee::FunctionName(mir::FunctionNameExpression {
            name: FunctionName::new_for_test(undefined_fn),
            type_: Type::new_fn_unwrapped(vec![], Type::Int32),
          }),
          arguments: vec![],
          return_type: Type::Int32,
          return_collector: Some(a),
        }],
        var(a, Type::Int32),
      ),
      "undefined function",
    ),
    (
      "call of a non-closure",
      int_fn(
        vec![
          Statement::binary(a, BinaryOperator::PLUS, mir::ONE, mir::ONE),
          Statement::Call {
            callee: mir::Callee::Variable(VariableName { name: a, type_: Type::Id(s_ty) }),
            arguments: vec![],
            return_type: Type::Int32,
            return_collector: Some(b),
          },
        ],
        var(b, Type::Int32),
      ),
      "not a closure",
    ),
    (
      "while without break collector producing a value",
      int_fn(
        vec![Statement::While {
          loop_variables: vec![],
          statements: vec![Statement::Break(mir::ONE)],
          break_collector: None,
        }],
        var(a, Type::Int32),
      ),
      "undefined variable",
    ),
    (
      "break outside loop",
      int_fn(vec![Statement::Break(mir::ONE)], mir::ZERO),
      "break outside",
    ),
    (
      "arithmetic on a string",
      int_fn(
        vec![Statement::Binary(mir::Binary {
          name: a,
          operator: BinaryOperator::MUL,
          e1: Expression::StringName(PStr::MAIN_FN),
          e2: mir::ONE,
        })],
        var(a, Type::Int32),
      ),
      "expected i32",
    ),
    (
      "string literal not in global_variables",
      int_fn(
        vec![Statement::Call {
          callee: mir::Callee::FunctionName(mir::FunctionNameExpression {
            name: FunctionName::PROCESS_PRINTLN,
            type_: Type::new_fn_unwrapped(vec![Type::Int31, Type::Id(mir::TypeNameId::STR)], Type::Int32),
          }),
          arguments: vec![Expression::Int31Literal(0), Expression::StringName(missing_string)],
          return_type: Type::Int32,
          return_collector: None,
        }],
        mir::ZERO,
      ),
      "not in sources.global_variables",
    ),
    (
      "condition is a pointer",
      int_fn(
        vec![
          Statement::StructInit {
            struct_variable_name: a,
            type_name: s_ty,
            expression_list: vec![mir::ONE, mir::ZERO],
          },
          Statement::SingleIf {
            condition: var(a, Type::Int32),
            invert_condition: false,
            statements: vec![],
          },
        ],
        mir::ZERO,
      ),
      "condition: expected i32",
    ),
  ];
  for (name, f, needle) in cases {
    let sources = Sources {
      symbol_table: SymbolTable::new(),
      global_variables: vec![samlang_ast::hir::GlobalString(PStr::MAIN_FN)],
      closure_types: vec![],
      type_definitions: vec![
        mir::TypeDefinition {
          name: s_ty,
          mappings: mir::TypeDefinitionMappings::Struct(vec![Type::Int32, Type::Int32]),
        },
        mir::TypeDefinition {
          name: t_ty,
          mappings: mir::TypeDefinitionMappings::Struct(vec![Type::Int32, Type::Int32, Type::Int32]),
        },
      ],
      main_function_names: vec![f.name],
      functions: vec![f],
    };
    // the symbol table that created s_ty/t_ty is only needed for printing; keep ids consistent
    let sources = Sources { symbol_table: std::mem::take(&mut table), ..sources };
    let (trace, r, _) = mirint::run_function(&heap, &sources, 0, &[], &limits);
    table = sources.symbol_table;
    match &trace.ending {
      Ending::Fault { kind, at } if kind.contains(needle) && at == "__$main" => {
        println!("fault {:50} -> Fault {{ kind: {:?}, at: {:?} }}", name, kind, at);
      }
      other => fail(&format!("fault case {name:?}: got {other:?} (result {r:?}), expected Fault containing {needle:?}")),
    }
  }

  // run_function with integer arguments
  let x = heap.alloc_str_for_test("x");
  let y = heap.alloc_str_for_test("y");
  let f = Function {
    name: FunctionName::new_for_test(heap.alloc_str_for_test("sub")),
    parameters: vec![x, y],
    type_: Type::new_fn_unwrapped(vec![Type::Int32, Type::Int32], Type::Int32),
    body: vec![Statement::Binary(mir::Binary {
      name: a,
      operator: BinaryOperator::MINUS,
      e1: var(x, Type::Int32),
      e2: var(y, Type::Int32),
    })],
    return_value: var(a, Type::Int32),
  };
  let sources = Sources {
    symbol_table: SymbolTable::new(),
    global_variables: vec![],
    closure_types: vec![],
    type_definitions: vec![],
    main_function_names: vec![],
    functions: vec![f],
  };
  let (t, r, _) = mirint::run_function(&heap, &sources, 0, &[i32::MIN, 1], &limits);
  if t.ending != Ending::Return || r != Some(i32::MAX) || !t.ub.overflow {
    fail(&format!("run_function sub(MIN,1): {:?} {:?} {:?}", t.ending, r, t.ub));
  } else {
    println!("run_function sub(i32::MIN, 1) = {:?}, ub.overflow set", r);
  }
  let (t, r, _) = mirint::run_function(&heap, &sources, 0, &[1], &limits);
  if !matches!(t.ending, Ending::Harness(_)) || r.is_some() {
    fail(&format!("run_function with wrong arity: {:?}", t.ending));
  }
}

fn dump(path: &str) {
  let text = std::fs::read_to_string(path).unwrap();
  let p = front::Project::single("Test", &text).with_std();
  let (heap, mir, entry) = lower(&p, "Test", None);
  println!("===== UNOPT =====\n{}", mir.debug_print(&heap));
  let (t, s) = mirint::run_main(&heap, &mir, entry, &Limits::default());
  println!("----- run: {:?} {:?}\n{}", t.ending, s, t.stdout());
  let (heap, mir, entry) =
    lower(&p, "Test", Some(&samlang_optimization::ALL_ENABLED_CONFIGURATION));
  println!("===== OPT =====\n{}", mir.debug_print(&heap));
  let (t, s) = mirint::run_main(&heap, &mir, entry, &Limits::default());
  println!("----- run: {:?} {:?}\n{}", t.ending, s, t.stdout());
}

fn main() {
  let args: Vec<String> = std::env::args().collect();
  if args.len() >= 3 && args[1] == "dump" {
    dump(&args[2]);
    return;
  }
  let t0 = Instant::now();
  calib_all_tests();
  calib_small();
  calib_faults();
  let failures = FAILURES.load(std::sync::atomic::Ordering::SeqCst);
  println!("calib_mir: {} failure(s), total {:.1?}", failures, t0.elapsed());
  if failures > 0 {
    std::process::exit(1);
  }
}
