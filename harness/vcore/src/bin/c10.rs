//! C10 — incremental language-server diagnostics equal a from-scratch analysis.
//! Oracle: after every operation of a generated history, the rendered diagnostics of every module
//! held by the incremental ServerState are compared with those of a freshly started ServerState
//! on the same file contents (the executable reference model).
use serde_json::json;
use std::collections::{BTreeMap, BTreeSet};
use std::panic::AssertUnwindSafe;
use vcore::evidence::{Run, env_seed, env_tier};
use vcore::lsphist::{self, Op};
use vcore::pool;
use vcore::rng::Rng;

#[derive(Clone, Debug)]
struct Mismatch {
  signature: String,
  what: String,
  step: usize,
}

fn role(module: &str, op: &Op, imports: &BTreeMap<String, Vec<String>>) -> &'static str {
  let touched = op.touched();
  if touched.iter().any(|t| t == module) {
    return "touched";
  }
  if imports.get(module).map(|v| v.iter().any(|i| touched.contains(i))).unwrap_or(false) {
    return "imports-touched";
  }
  if touched.iter().any(|t| imports.get(t).map(|v| v.iter().any(|i| i == module)).unwrap_or(false)) {
    return "imported-by-touched";
  }
  "unrelated"
}

fn compare(state: &samlang_services::server_state::ServerState, op: &Op, step: usize) -> Option<Mismatch> {
  let inc = lsphist::diagnostics(state);
  let fresh_state = lsphist::fresh_like(state);
  let fresh = lsphist::diagnostics(&fresh_state);
  if inc == fresh {
    return None;
  }
  let imports = lsphist::imports_of(state);
  let ik: BTreeSet<&String> = inc.keys().collect();
  let fk: BTreeSet<&String> = fresh.keys().collect();
  if ik != fk {
    return Some(Mismatch { signature: format!("module-set-differs:{}", op.kind()), what: format!("incremental server holds modules {:?}, fresh server {:?}", ik, fk), step });
  }
  for (m, iv) in &inc {
    let fv = &fresh[m];
    if iv != fv {
      let stale: Vec<&(String, String)> = iv.iter().filter(|e| !fv.contains(e)).collect();
      let missed: Vec<&(String, String)> = fv.iter().filter(|e| !iv.contains(e)).collect();
      let dir = match (stale.is_empty(), missed.is_empty()) {
        (false, true) => "stale",
        (true, false) => "missed",
        _ => "stale+missed",
      };
      let kinds: BTreeSet<&str> = stale.iter().chain(missed.iter()).map(|e| e.0.as_str()).collect();
      let r = role(m, op, &imports);
      return Some(Mismatch {
        signature: format!("{}:{}:{}:{}", op.kind(), r, dir, kinds.into_iter().collect::<Vec<_>>().join("+")),
        what: format!(
          "after step {step} ({}), module {m} ({r}): incremental-only diagnostics {:?}; fresh-only diagnostics {:?}",
          op.kind(),
          stale.iter().map(|e| &e.1).collect::<Vec<_>>(),
          missed.iter().map(|e| &e.1).collect::<Vec<_>>()
        ),
        step,
      });
    }
  }
  None
}

struct HistStats {
  steps: u64,
  nontrivial_steps: u64,
  diag_steps: u64,
  panics: u64,
}

fn run_history(initial: &[(String, String)], ops: &[Op], st: &mut HistStats) -> Option<Mismatch> {
  let r = pool::catch(AssertUnwindSafe(|| {
    let mut state = lsphist::new_state(initial);
    let mut local = (0u64, 0u64, 0u64);
    for (i, op) in ops.iter().enumerate() {
      lsphist::apply(&mut state, op);
      local.0 += 1;
      let nmods = state.all_modules().len();
      let has_diag = state.all_modules().iter().any(|m| !state.get_errors(m).is_empty());
      if has_diag {
        local.2 += 1;
      }
      if nmods >= 3 && op.touched().len() == 1 && has_diag {
        local.1 += 1;
      }
      if let Some(mm) = compare(&state, op, i) {
        return (Some(mm), local);
      }
    }
    (None, local)
  }));
  match r {
    Ok((mm, l)) => {
      st.steps += l.0;
      st.nontrivial_steps += l.1;
      st.diag_steps += l.2;
      mm
    }
    Err(_) => {
      st.panics += 1;
      None
    }
  }
}

fn main() {
  let args: Vec<String> = std::env::args().collect();
  let tier = args.get(1).cloned().unwrap_or_else(|| env_tier("quick"));
  let seed = env_seed();
  pool::install_hook();
  let mut run = Run::new("C10", &tier, seed, "exploration");
  let thorough = tier == "thorough";
  let (nhist, maxlen): (u64, usize) = if thorough { (120_000, 60) } else { (6_000, 22) };
  let nthreads = 16u64;
  let results: Vec<_> = std::thread::scope(|sc| {
    let hs: Vec<_> = (0..nthreads)
      .map(|t| {
        sc.spawn(move || {
          let mut st = HistStats { steps: 0, nontrivial_steps: 0, diag_steps: 0, panics: 0 };
          let mut found: Vec<(String, String, String)> = Vec::new();
          let mut seen: BTreeSet<String> = BTreeSet::new();
          let mut nt_hist = 0u64;
          let mut total = 0u64;
          let mut sample = None;
          let mut k = t;
          while k < nhist {
            let mut rng = Rng::new(seed.wrapping_mul(0x9E3779B97F4A7C15) ^ k);
            let len = 5 + rng.below(maxlen - 4);
            let lng = k % 3 != 0;
            let (initial, ops) = lsphist::gen_history(&mut rng, len, lng);
            let before = st.nontrivial_steps;
            let mm = run_history(&initial, &ops, &mut st);
            total += 1;
            if st.nontrivial_steps > before {
              nt_hist += 1;
            }
            if sample.is_none() && ops.len() <= 6 {
              sample = Some(lsphist::render_history(&initial, &ops).chars().take(900).collect::<String>());
            }
            if let Some(mm) = mm {
              let prefix: Vec<Op> = ops[..=mm.step].to_vec();
              let replay = if seen.insert(mm.signature.clone()) {
                // drop earlier operations while the same signature persists at the final step
                let last = prefix.last().unwrap().clone();
                let want = mm.signature.clone();
                let mut budget = 300usize;
                let kept = vcore::ddmin::ddmin_list(
                  prefix[..prefix.len() - 1].to_vec(),
                  &mut |c| {
                    let mut o = c.to_vec();
                    o.push(last.clone());
                    let mut s2 = HistStats { steps: 0, nontrivial_steps: 0, diag_steps: 0, panics: 0 };
                    matches!(run_history(&initial, &o, &mut s2), Some(m2) if m2.signature == want && m2.step == o.len() - 1)
                  },
                  &mut budget,
                );
                let mut o = kept;
                o.push(last);
                format!("history seed={seed} number={k} (minimised)\n{}", lsphist::render_history(&initial, &o))
              } else {
                format!("history seed={seed} number={k}\n{}", lsphist::render_history(&initial, &prefix))
              };
              found.push((mm.signature, mm.what, replay));
            }
            k += nthreads;
          }
          (st, found, nt_hist, total, sample)
        })
      })
      .collect();
    hs.into_iter().map(|h| h.join().unwrap()).collect()
  });
  let (mut steps, mut nts, mut diag, mut panics) = (0u64, 0u64, 0u64, 0u64);
  for (st, found, nt_hist, total, sample) in results {
    steps += st.steps;
    nts += st.nontrivial_steps;
    diag += st.diag_steps;
    panics += st.panics;
    run.evaluations += total;
    run.distinct_nontrivial += nt_hist;
    for (s, w, r) in found {
      run.violation(s, w, r);
    }
    if let Some(s) = sample {
      run.sample(json!(s));
    }
  }
  run.rule = "histories generated from VERIF_SEED: an initial ServerState::new over 2-6 modules, then 5-60 operations (update of one or two modules incl. creation, rename_module incl. onto existing and from missing names, remove) with contents drawn from a pool that makes dependencies matter (exporters with/without a member, importers whose typing depends on the imported signature, syntax errors with and without imports, self imports, cycles, missing modules/exports, interface/implementer pairs across modules, duplicate class names, self-mentioning signatures); two thirds use identifiers longer than 15 bytes; non-trivial = history containing a step that touched a single module while >= 3 modules existed and some module had a diagnostic".into();
  run.cov("steps_compared_against_fresh_server", json!(steps));
  run.cov("steps_with_single_touched_module_and_diagnostics", json!(nts));
  run.cov("steps_with_any_diagnostic", json!(diag));
  run.cov("histories_abandoned_because_the_server_panicked", json!(panics));
  if panics > 0 {
    run.inconclusive("history abandoned: server panicked (judged by C11)");
  }
  run.assumptions = vec![
    "a freshly constructed ServerState over the same file contents is the reference model".into(),
    "diagnostics are compared per module as sorted lists of (location, IDE message, reference locations); the order inside a module is not compared because it follows heap-allocation order of interned strings".into(),
  ];
  std::process::exit(run.finish());
}
