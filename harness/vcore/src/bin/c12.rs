//! C12 — compilation results depend only on the sources, not on hashing or scheduling.
//! Monitor: the same sources are compiled in many fresh processes (fresh hash seeds) with
//! different worker-thread counts and different module insertion orders; verdict, rendered
//! diagnostics and the behaviour of the emitted wasm / TypeScript must be identical.
use serde_json::{Value, json};
use std::collections::{BTreeMap, HashMap};
use std::panic::AssertUnwindSafe;
use std::process::Command;
use vcore::corpus::Corpus;
use vcore::diffexec;
use vcore::evidence::{Run, env_seed, env_tier, hash_str};
use vcore::front::{self, Project};
use vcore::pgen::{self, GenConfig};
use vcore::pool;
use vcore::rng::Rng;
use vcore::{tsrun, wasmi};

fn gen_program(seed: u64, i: u64, corpus: &Corpus) -> (String, Project, String) {
  let mut rng = Rng::new(seed.wrapping_mul(0x9E3779B97F4A7C15) ^ i.wrapping_mul(0xD1B54A32D192ED03));
  if i == 0 {
    let mut p = Project::default();
    p.modules.extend(corpus.tests.iter().cloned());
    p.modules.extend(corpus.std.iter().cloned());
    return ("corpus tests.AllTests".into(), p, "tests.AllTests".into());
  }
  if i % 4 == 0 {
    // constructs whose lowering walks sets / maps of names (captured variables, members)
    let text = vcore::exprgen::order_zoo(&mut rng);
    return (format!("order zoo {i}"), Project::single("Zoo", &text).with_std(), "Zoo".into());
  }
  let pseed = seed.wrapping_mul(1_000_003).wrapping_add(i);
  let mut cfg = GenConfig::default_for(pseed);
  cfg.max_modules = 5;
  cfg.max_classes = 8;
  let g = pgen::generate(pseed, &cfg);
  let mut p = g.project.with_std();
  if i % 4 == 2 {
    // a rejected variant with many diagnostics, several at equal locations / of equal kind
    let mut edits = 0;
    for m in p.modules.iter_mut().filter(|m| m.0.starts_with("gen.")) {
      for (from, to) in [("Str.fromInt(", "Str.fromIntt("), (".toInt()", ".toIntt()"), ("Process.println(", "Process.printline("), (" + 1", " + \"one\"")] {
        if rng.chance(1, 2) && m.1.contains(from) {
          m.1 = m.1.replacen(from, to, 3);
          edits += 1;
        }
      }
      if rng.chance(1, 3) {
        m.1.push_str("\nclass DuplicateClassName { }\nclass DuplicateClassName { }\nclass UsesMissing { function f(a: MissingTypeOne, b: MissingTypeTwo): MissingTypeThree = a }\n");
        edits += 1;
      }
    }
    if rng.chance(3, 4) {
      // diagnostics whose text is assembled from sets / maps of names: counterexamples of
      // non-exhaustive matches with several equally good holes, binder sets of or-patterns, lists of
      // missing members, cyclic definitions, several unresolved names in one expression
      let mut variants = vec!["ZCircle(ZooSize)", "ZSquare(ZooSize)", "ZTri(ZooSize, ZooSize)", "ZDot", "ZRing(ZooSize)"];
      rng.shuffle(&mut variants);
      let mut sizes = vec!["ZSmall", "ZLarge(int)", "ZHuge(int)"];
      rng.shuffle(&mut sizes);
      let mut members = vec![
        "  function f1(s: ZooShape): int = match s { ZCircle(ZLarge(n)) -> n, ZSquare(ZLarge(n)) -> n, ZRing(ZLarge(n)) -> n, ZTri(ZLarge(n), _) -> n, ZDot -> 0 }",
        "  function f2(p: ZooPair): int = match p { { a as ZLarge(n), b as ZLarge(k) } -> n + k }",
        "  function f3(s: ZooShape, w: int, h: int): int = match s { ZCircle(_) | ZSquare(w) -> 1, ZTri(h, w) | ZRing(h) -> 2, ZDot -> 3 }",
        "  function f4(x: ZooSize, y: ZooSize, z: ZooSize): int = match (x, y, z) { (ZLarge(a), ZLarge(b), ZLarge(c)) -> a + b + c, (ZSmall, ZSmall, ZSmall) -> 0 }",
        "  function f5(): int = undefinedOne + undefinedTwo * UndefinedClassOne.f() - UndefinedClassTwo.g(undefinedThree)",
        "  function f6(s: ZooShape): int = { let ZCircle(ZLarge(q)) = s; q }",
        "  function f7(s: ZooShape): int = if let ZCircle(a) | ZSquare(b) = s { 1 } else { 2 }",
        "  function f8(p: ZooPair): int = { let { a, b, c, d } = p; 1 }",
        "  function f9(i: ZooImpl): int = i.m1() + i.m2() + i.missingOne() + i.missingTwo()",
      ];
      rng.shuffle(&mut members);
      let zoo = format!(
        "class ZooSize({}) {{}}\nclass ZooShape({}) {{}}\nclass ZooPair(val a: ZooSize, val b: ZooSize) {{}}\ninterface ZooItf {{ method m1(): int method m2(): int method m3(): Str method m4(): bool }}\nclass ZooImpl : ZooItf {{ }}\ninterface ZooCycA : ZooCycB {{}}\ninterface ZooCycB : ZooCycC {{}}\ninterface ZooCycC : ZooCycA {{}}\nclass ZooErr {{\n{}\n}}\n",
        sizes.join(", "),
        variants.join(", "),
        members.join("\n")
      );
      p.modules.push(("zoo.Errors".into(), zoo));
      edits += 1;
    }
    if rng.chance(1, 2) {
      // one module that does not even parse next to modules with ordinary checker errors
      p.modules.push(("zoo.Broken".into(), "class Broken {\n  function f(: int = \n  function g(): int = 1 +\n}\n".into()));
      edits += 1;
    }
    return (format!("rejected variant of pgen seed {pseed} ({edits} edits)"), p, g.entry);
  }
  if i % 4 == 1 {
    // two entry points, the first one's main reachable from the second
    p.modules.push(("multi.Helper".into(), format!("import {{ Main }} from {}\nclass Helper {{ function run(): unit = Main.main() }}\n", g.entry)));
    p.modules.push(("multi.Second".into(), "import { Helper } from multi.Helper\nclass Main { function main(): unit = { Helper.run(); Process.println(\"second entry point\"); } }\n".into()));
    return (format!("pgen seed {pseed} with a second entry point"), p, g.entry);
  }
  (format!("pgen seed {pseed}"), p, g.entry)
}

fn report_early(run: &mut Run, label: &str, user_src: &str, sig: &str, what: String, m: &BTreeMap<String, Vec<String>>) {
  let mut detail = String::new();
  for (val, who) in m {
    detail.push_str(&format!("---- {} runs, e.g. {}:\n{}\n", who.len(), who[0], val.chars().take(1500).collect::<String>()));
  }
  run.violation(sig.to_string(), what, format!("# {label}\n{detail}\n# sources:\n{user_src}"));
}

/// one compilation in this (fresh) process; prints a JSON line
fn one(seed: u64, i: u64, perm: u64) {
  pool::install_hook();
  let corpus = Corpus::load();
  let (_, project, entry) = gen_program(seed, i, &corpus);
  let mut heap = samlang_heap::Heap::new();
  // module insertion order: a permutation derived from `perm`
  let mut mods = project.modules.clone();
  Rng::new(perm).shuffle(&mut mods);
  // interleave unrelated interning so that PStr ids differ between runs
  for k in 0..(perm % 7) {
    heap.alloc_string(format!("unrelatedStringNumber{k}_{perm}_padding"));
  }
  let mut handles: HashMap<samlang_heap::ModuleReference, String> = HashMap::new();
  for (n, t) in &mods {
    handles.insert(front::mod_ref(&mut heap, n), t.clone());
  }
  let entry_ref = front::mod_ref(&mut heap, &entry);
  let mut entries = vec![entry_ref];
  if project.modules.iter().any(|m| m.0 == "multi.Second") {
    let second = front::mod_ref(&mut heap, "multi.Second");
    // the list of entry points is part of the input: same order in every process
    entries.push(second);
  }
  let r = pool::catch(AssertUnwindSafe(|| samlang_compiler::compile_sources(&mut heap, handles, entries, false)));
  let v = match r {
    Err(e) => json!({"panic": e}),
    Ok(Err(diag)) => json!({"verdict": "rejected", "diag": diag}),
    Ok(Ok(res)) => {
      let ts = res.text_code_results.get(&format!("{entry}.ts")).cloned().unwrap_or_default();
      let main_fn = ts.trim_end().rsplit('\n').next().unwrap_or("").trim_end_matches("();").to_string();
      let lim = vcore::trace::Limits { max_steps: 3_000_000_000, max_depth: 4000, max_lines: 100_000 };
      let wasm_trace = match wasmi::validate(&res.wasm_file) {
        Ok(()) => {
          let (t, _) = wasmi::run(&res.wasm_file, &main_fn, &lim);
          format!("{:?}|{}", t.ending, t.lines.join("\n"))
        }
        Err(e) => format!("INVALID {e}"),
      };
      let ts_trace = match tsrun::erase(&ts) {
        Ok(js) => {
          let t = tsrun::run_one(&js, &lim, 20_000);
          if t.conclusive() { format!("{:?}|{}", t.ending, t.lines.join("\n")) } else { "INCONCLUSIVE".to_string() }
        }
        Err(e) => format!("ERASE {e}"),
      };
      json!({"verdict": "accepted", "wasm_trace": wasm_trace, "ts_trace": ts_trace, "ts_text_hash": format!("{:016x}", hash_str(&ts)), "wasm_bytes_hash": format!("{:016x}", hash_str(&format!("{:?}", res.wasm_file)))})
    }
  };
  println!("{v}");
}

fn main() {
  let args: Vec<String> = std::env::args().collect();
  if let Some(p) = args.iter().position(|a| a == "--one") {
    one(args[p + 1].parse().unwrap(), args[p + 2].parse().unwrap(), args[p + 3].parse().unwrap());
    return;
  }
  let tier = args.get(1).cloned().unwrap_or_else(|| env_tier("quick"));
  let seed = env_seed();
  let mut run = Run::new("C12", &tier, seed, "exploration");
  let thorough = tier == "thorough";
  let (nprog, nproc): (u64, u64) = if thorough { (160, 24) } else { (20, 8) };
  let threads: &[u32] = if thorough { &[1, 2, 3, 8, 16] } else { &[1, 3, 16] };
  let exe = std::env::current_exe().unwrap();
  let corpus = Corpus::load();
  // job list: (program, process index, thread count)
  let mut jobs: Vec<(u64, u64, u32)> = Vec::new();
  for i in 0..nprog {
    let np = if i == 0 { 3 } else { nproc };
    for k in 0..np {
      jobs.push((i, k, threads[(k as usize) % threads.len()]));
    }
  }
  let results: std::sync::Mutex<BTreeMap<u64, Vec<(u64, u32, Value)>>> = std::sync::Mutex::new(BTreeMap::new());
  let next = std::sync::atomic::AtomicUsize::new(0);
  std::thread::scope(|sc| {
    for _ in 0..10 {
      sc.spawn(|| loop {
        let j = next.fetch_add(1, std::sync::atomic::Ordering::SeqCst);
        if j >= jobs.len() {
          break;
        }
        let (i, k, th) = jobs[j];
        let out = Command::new(&exe).arg("--one").arg(seed.to_string()).arg(i.to_string()).arg((seed ^ (i * 1000 + k + 1)).to_string()).env("RAYON_NUM_THREADS", th.to_string()).output();
        let v = match out {
          Ok(o) if o.status.success() => serde_json::from_slice::<Value>(o.stdout.split(|b| *b == b'\n').rev().find(|l| !l.is_empty()).unwrap_or(b"{}")).unwrap_or(json!({"harness": "bad json"})),
          Ok(o) => json!({"died": format!("{:?}", o.status), "stderr": String::from_utf8_lossy(&o.stderr).chars().rev().take(300).collect::<String>().chars().rev().collect::<String>()}),
          Err(e) => json!({"harness": format!("spawn: {e}")}),
        };
        results.lock().unwrap().entry(i).or_default().push((k, th, v));
      });
    }
  });
  let results = results.into_inner().unwrap();
  let mut nt = 0u64;
  let (mut accepted, mut rejected, mut distinct_text_total) = (0u64, 0u64, 0u64);
  for (i, runs) in &results {
    let (label, project, _) = gen_program(seed, *i, &corpus);
    run.evaluations += runs.len() as u64;
    let user_src = diffexec::render_project(&Project { modules: project.modules.iter().filter(|(n, _)| !n.starts_with("std.")).cloned().collect() });
    let field = |key: &str| -> BTreeMap<String, Vec<String>> {
      let mut m: BTreeMap<String, Vec<String>> = BTreeMap::new();
      for (k, th, v) in runs {
        if let Some(x) = v.get(key).and_then(|x| x.as_str()) {
          m.entry(x.to_string()).or_default().push(format!("process {k} (threads {th})"));
        }
      }
      m
    };
    for (_, _, v) in runs {
      if let Some(h) = v.get("harness") {
        run.harness_errors.push(format!("{label}: {h}"));
      }
      if let Some(p) = v.get("panic") {
        run.inconclusive(&format!("compile_sources panicked (C03/C05's subject): {}", p.as_str().unwrap_or("").chars().take(60).collect::<String>()));
      }
      if let Some(d) = v.get("died") {
        run.inconclusive(&format!("process died: {d}"));
      }
    }
    // the same sources crash the compiler in some processes and compile in others: whatever the
    // cause of the crash (C03's subject), the outcome depends on something other than the sources
    let panics = field("panic");
    let verdicts = field("verdict");
    if !panics.is_empty() && !verdicts.is_empty() {
      let mut both = verdicts.clone();
      for (k, v) in &panics {
        both.insert(format!("compile_sources panicked: {}", k.chars().take(200).collect::<String>()), v.clone());
      }
      report_early(&mut run, &label, &user_src, "compiler-crashes-in-some-processes-only", format!("{label}: compile_sources panics in {} of {} processes and finishes in the others", panics.values().map(|v| v.len()).sum::<usize>(), panics.values().chain(verdicts.values()).map(|v| v.len()).sum::<usize>()), &both);
      continue;
    }
    let report = |run: &mut Run, sig: &str, what: String, m: &BTreeMap<String, Vec<String>>| {
      let mut detail = String::new();
      for (val, who) in m {
        detail.push_str(&format!("---- {} runs, e.g. {}:\n{}\n", who.len(), who[0], val.chars().take(1500).collect::<String>()));
      }
      run.violation(sig.to_string(), what, format!("# {label}\n{detail}\n# sources:\n{user_src}"));
    };
    if verdicts.len() > 1 {
      report(&mut run, "verdict-differs", format!("{label}: accepted in some processes and rejected in others"), &verdicts);
      continue;
    }
    if verdicts.contains_key("rejected") {
      rejected += 1;
      let d = field("diag");
      if d.len() > 1 {
        let keys: Vec<&String> = d.keys().collect();
        // same diagnostics in a different order, or different text?
        let blocks = |t: &str| -> Vec<String> {
          let mut out: Vec<String> = Vec::new();
          for l in t.lines() {
            if l.starts_with("Found ") && l.ends_with("errors.") {
              continue;
            }
            if l.starts_with("Error -") || out.is_empty() {
              out.push(String::new());
            }
            let last = out.last_mut().unwrap();
            last.push_str(l);
            last.push('\n');
          }
          out
        };
        let (mut a, mut b) = (blocks(keys[0]), blocks(keys[1]));
        a.sort();
        b.sort();
        // is only the order of whole modules different, or also the order inside a module?
        let per_module = |v: &Vec<String>| -> BTreeMap<String, Vec<String>> {
          let mut m: BTreeMap<String, Vec<String>> = BTreeMap::new();
          for blk in v {
            let file = blk.lines().next().unwrap_or("").rsplit(' ').next().unwrap_or("").split(".sam").next().unwrap_or("").to_string();
            m.entry(file).or_default().push(blk.clone());
          }
          m
        };
        let (ua, ub) = (blocks(keys[0]), blocks(keys[1]));
        let class = if a != b {
          "text-of-diagnostics"
        } else if per_module(&ua) == per_module(&ub) {
          "order-of-modules-in-the-report"
        } else {
          "order-of-diagnostics-inside-a-module"
        };
        report(&mut run, &format!("diagnostics-differ:{class}"), format!("{label}: the rendered diagnostics differ between processes ({class})"), &d);
      } else {
        nt += 1;
      }
    } else if verdicts.contains_key("accepted") {
      accepted += 1;
      let w = field("wasm_trace");
      if w.len() > 1 {
        report(&mut run, "wasm-behaviour-differs", format!("{label}: the emitted wasm behaves differently depending on the process"), &w);
      }
      let mut t = field("ts_trace");
      t.remove("INCONCLUSIVE");
      if t.len() > 1 {
        report(&mut run, "ts-behaviour-differs", format!("{label}: the emitted TypeScript behaves differently depending on the process"), &t);
      }
      let texts = field("ts_text_hash").len() as u64;
      distinct_text_total += texts;
      if texts >= 2 {
        nt += 1;
      }
      if *i % 7 == 1 {
        run.sample(json!({"program": label, "processes": runs.len(), "distinct_emitted_typescript_texts": texts, "distinct_wasm_binaries": field("wasm_bytes_hash").len(), "first_lines": w.keys().next().map(|s| s.chars().take(120).collect::<String>())}));
      }
    }
  }
  run.distinct_nontrivial = nt;
  run.rule = "programs: tests.AllTests, 5-module generator programs and rejected variants with many diagnostics; each compiled with the real compile_sources in 8 (quick) / 24 (thorough) fresh processes (fresh hash seeds), RAYON_NUM_THREADS in {1,3,16} / {1,2,3,8,16}, a different insertion order of the source map and different amounts of unrelated interning per process; non-trivial = accepted programs for which at least two distinct emitted TypeScript texts were observed (order dependence was really exercised) plus rejected programs whose diagnostics were compared".into();
  run.cov("programs_accepted", json!(accepted));
  run.cov("programs_rejected", json!(rejected));
  run.cov("sum_of_distinct_emitted_texts", json!(distinct_text_total));
  run.cov("thread_counts", json!(threads));
  run.cov("processes_per_program", json!(nproc));
  run.assumptions = vec![
    "hash-map iteration orders are sampled through fresh processes, not enumerated; scheduling through RAYON_NUM_THREADS".into(),
    "emitted text may differ between processes; behaviour (wasm interpreter trace, node trace) may not".into(),
  ];
  std::process::exit(run.finish());
}
