//! Calibration of the reference interpreter (vcore::refint):
//!  (1) tests.AllTests of the repository must reproduce /repo/tests/snapshot.txt byte for byte;
//!  (2) small hand-written programs with known traces.
//! Exit code 0 = calibrated, 1 = deviation (a diff is printed).
use samlang_heap::Heap;
use std::time::Instant;
use vcore::front::{self, Project};
use vcore::refint::{self, Value};
use vcore::trace::{Ending, Limits, Trace, UbFlags};

struct Failures(Vec<String>);

impl Failures {
  fn fail(&mut self, name: &str, msg: String) {
    println!("FAIL [{name}] {msg}");
    self.0.push(name.to_string());
  }
}

fn first_diff(expected: &str, actual: &str) -> String {
  let e: Vec<&str> = expected.split('\n').collect();
  let a: Vec<&str> = actual.split('\n').collect();
  for i in 0..e.len().max(a.len()) {
    let (x, y) = (e.get(i), a.get(i));
    if x != y {
      return format!(
        "first difference at line {}:\n  expected: {:?}\n  actual:   {:?}\n  ({} expected lines, {} actual lines)",
        i + 1,
        x,
        y,
        e.len(),
        a.len()
      );
    }
  }
  "no difference".to_string()
}

fn ub_string(ub: &UbFlags) -> String {
  let mut v = Vec::new();
  if ub.overflow {
    v.push("overflow");
  }
  if ub.div_zero {
    v.push("div_zero");
  }
  if ub.bad_to_int {
    v.push("bad_to_int");
  }
  if ub.capacity_observed {
    v.push("capacity_observed");
  }
  if v.is_empty() { "none".to_string() } else { v.join(",") }
}

fn run_src(src: &str, limits: &Limits) -> Result<(Trace, refint::RefStats), String> {
  let mut heap = Heap::new();
  let project = Project::single("Test", src).with_std();
  let checked = front::check_project(&mut heap, &project);
  if checked.errors.has_errors() {
    return Err(format!(
      "program does not type check:\n{}",
      checked.errors.pretty_print_error_messages_no_frame_for_test(&heap)
    ));
  }
  let entry = front::mod_ref(&mut heap, "Test");
  Ok(refint::run(&heap, &checked.checked, entry, limits))
}

struct Expect<'a> {
  name: &'a str,
  src: &'a str,
  lines: &'a [&'a str],
  ending: Ending,
  ub: UbFlags,
  limits: Limits,
}

fn check_case(f: &mut Failures, c: Expect<'_>) -> Option<refint::RefStats> {
  let t0 = Instant::now();
  let (trace, stats) = match run_src(c.src, &c.limits) {
    Ok(r) => r,
    Err(e) => {
      f.fail(c.name, e);
      return None;
    }
  };
  let expected: Vec<String> = c.lines.iter().map(|s| s.to_string()).collect();
  let mut ok = true;
  if trace.lines != expected {
    ok = false;
    f.fail(
      c.name,
      format!("output differs; {}", first_diff(&expected.join("\n"), &trace.lines.join("\n"))),
    );
  }
  if trace.ending != c.ending {
    ok = false;
    f.fail(c.name, format!("ending: expected {:?}, got {:?}", c.ending, trace.ending));
  }
  if trace.ub != c.ub {
    ok = false;
    f.fail(
      c.name,
      format!("ub flags: expected {}, got {}", ub_string(&c.ub), ub_string(&trace.ub)),
    );
  }
  if ok {
    println!(
      "ok   [{}] ending={:?} steps={} max_depth={} tail_calls={} ({:.0} ms)",
      c.name,
      trace.ending,
      stats.steps,
      stats.max_depth,
      stats.tail_calls,
      t0.elapsed().as_secs_f64() * 1000.0
    );
  }
  Some(stats)
}

fn no_ub() -> UbFlags {
  UbFlags::default()
}

fn all_tests(f: &mut Failures) {
  let mut heap = Heap::new();
  let project = front::repo_project();
  let t0 = Instant::now();
  let checked = front::check_project(&mut heap, &project);
  let t_check = t0.elapsed();
  if checked.errors.has_errors() {
    f.fail(
      "AllTests",
      format!(
        "repo project does not type check:\n{}",
        checked.errors.pretty_print_error_messages_no_frame_for_test(&heap)
      ),
    );
    return;
  }
  let entry = front::mod_ref(&mut heap, "tests.AllTests");
  let limits = Limits { max_steps: 2_000_000_000, max_depth: 100_000, max_lines: 1_000_000 };
  let t1 = Instant::now();
  let (trace, stats) = refint::run(&heap, &checked.checked, entry, &limits);
  let t_run = t1.elapsed();
  let expected = std::fs::read_to_string(format!("{}/tests/snapshot.txt", front::REPO))
    .expect("snapshot.txt");
  let actual = trace.stdout();
  println!(
    "AllTests: check {:.2}s, interpret {:.3}s, ending {:?}, ub flags: {}",
    t_check.as_secs_f64(),
    t_run.as_secs_f64(),
    trace.ending,
    ub_string(&trace.ub)
  );
  println!("AllTests: stats {stats:?}");
  if stats.object_eq > 0 {
    println!(
      "  note: {} `==` comparisons on heap objects decided by reference identity ({} of them \
       representation dependent); needed by std.map's physical-equality shortcuts",
      stats.object_eq, stats.ambiguous_object_eq
    );
  }
  if trace.ub.overflow {
    println!(
      "  note: ub.overflow is set because the corpus contains wrapping arithmetic on purpose \
       (hash functions / overflow tests)"
    );
  }
  if trace.ub.capacity_observed {
    println!("  note: ub.capacity_observed is set because the corpus calls Vec.capacity()");
  }
  if trace.ub.bad_to_int {
    println!("  note: ub.bad_to_int is set: the corpus calls toInt on a non canonical numeral");
  }
  if actual != expected {
    f.fail("AllTests", format!("stdout differs from snapshot.txt; {}", first_diff(&expected, &actual)));
  }
  if trace.ending != Ending::Return {
    f.fail("AllTests", format!("ending {:?}, expected Return", trace.ending));
  }
  if trace.ub.div_zero {
    f.fail("AllTests", "ub.div_zero set".to_string());
  }
  if t_run.as_secs_f64() > 20.0 {
    f.fail("AllTests", format!("too slow: {:.1}s", t_run.as_secs_f64()));
  }
  if actual == expected && trace.ending == Ending::Return {
    println!("ok   [AllTests] {} lines identical to snapshot.txt", trace.lines.len());
  }
}

/// every zero-parameter static function `run` of every class in tests/*.sam must be interpretable
/// (no `Harness` ending): a sweep for unsupported constructs beyond what AllTests reaches
fn corpus_sweep(f: &mut Failures) {
  use samlang_ast::source::Toplevel;
  let mut heap = Heap::new();
  let project = front::repo_project();
  let checked = front::check_project(&mut heap, &project);
  if checked.errors.has_errors() {
    f.fail("corpus sweep", "repo project does not type check".to_string());
    return;
  }
  let limits = Limits { max_steps: 2_000_000_000, max_depth: 100_000, max_lines: 1_000_000 };
  let mut names: Vec<&String> = project.modules.iter().map(|(n, _)| n).collect();
  names.sort();
  let (mut ran, mut bad) = (0, 0);
  let t0 = Instant::now();
  for name in names {
    if !name.starts_with("tests.") || name == "tests.AllTests" {
      continue;
    }
    let m = front::mod_ref(&mut heap, name);
    let Some(module) = checked.checked.get(&m) else { continue };
    for toplevel in &module.toplevels {
      let Toplevel::Class(c) = toplevel else { continue };
      for member in &c.members.members {
        let d = &member.decl;
        if d.is_method
          || d.name.name.as_str(&heap) != "run"
          || !d.parameters.parameters.is_empty()
        {
          continue;
        }
        let class = c.name.name.as_str(&heap).to_string();
        let (t, _, stats) =
          refint::run_function(&heap, &checked.checked, m, &class, "run", vec![], &limits);
        ran += 1;
        match &t.ending {
          Ending::Return => {}
          Ending::Harness(msg) => {
            bad += 1;
            f.fail("corpus sweep", format!("{name} {class}.run: Harness({msg})"));
          }
          other => println!(
            "  note: {name} {class}.run ends with {other:?} after {} lines (ub: {}, steps {})",
            t.lines.len(),
            ub_string(&t.ub),
            stats.steps
          ),
        }
      }
    }
  }
  if bad == 0 {
    println!(
      "ok   [corpus sweep] {ran} `run` functions of tests/*.sam interpreted without harness \
       failure ({:.2}s)",
      t0.elapsed().as_secs_f64()
    );
  }
}

fn run_function_checks(f: &mut Failures) {
  let src = r#"
import { Pair } from std.tuples;
class Calc {
  function add(a: int, b: int): int = a + b
  function greet(name: Str, loud: bool): Str = if loud { "HELLO " :: name } else { "hello " :: name }
  function pair(a: int): Pair<int, Str> = (a, Str.fromInt(a))
}
class Main { function main(): unit = {} }
"#;
  let mut heap = Heap::new();
  let project = Project::single("Test", src).with_std();
  let checked = front::check_project(&mut heap, &project);
  if checked.errors.has_errors() {
    f.fail(
      "run_function",
      checked.errors.pretty_print_error_messages_no_frame_for_test(&heap),
    );
    return;
  }
  let m = front::mod_ref(&mut heap, "Test");
  let limits = Limits::default();
  let (t, v, _) = refint::run_function(
    &heap,
    &checked.checked,
    m,
    "Calc",
    "add",
    vec![Value::Int(40), Value::Int(2)],
    &limits,
  );
  match (&t.ending, &v) {
    (Ending::Return, Some(Value::Int(42))) => println!("ok   [run_function add]"),
    other => f.fail("run_function add", format!("{other:?}")),
  }
  let (t, v, _) = refint::run_function(
    &heap,
    &checked.checked,
    m,
    "Calc",
    "greet",
    vec![Value::str("bob"), Value::Bool(true)],
    &limits,
  );
  match (&t.ending, v.as_ref().map(|v| v.render())) {
    (Ending::Return, Some(s)) if s == "\"HELLO bob\"" => println!("ok   [run_function greet]"),
    other => f.fail("run_function greet", format!("{other:?}")),
  }
  let (t, v, _) =
    refint::run_function(&heap, &checked.checked, m, "Calc", "pair", vec![Value::Int(7)], &limits);
  match (&t.ending, v.as_ref().map(|v| v.render())) {
    (Ending::Return, Some(s)) if s == "Pair{e0: 7, e1: \"7\"}" => {
      println!("ok   [run_function pair] {s}")
    }
    other => f.fail("run_function pair", format!("{other:?}")),
  }
  let (t, _, _) =
    refint::run_function(&heap, &checked.checked, m, "Calc", "nope", vec![], &limits);
  match &t.ending {
    Ending::Harness(_) => println!("ok   [run_function missing] {:?}", t.ending),
    other => f.fail("run_function missing", format!("{other:?}")),
  }
}

fn unit_checks(f: &mut Failures) {
  let cases: &[(&str, &str)] = &[
    ("plain", "plain"),
    (r"a\nb", "a\nb"),
    (r"t\tq", "t\tq"),
    (r"back\\slash", "back\\slash"),
    (r"\\n", "\\n"),
    ("q\"q", "q\"q"),
    (r"\0\b\f\v", "\0\u{8}\u{c}\u{b}"),
    (r"\\\\", "\\\\"),
  ];
  for (raw, want) in cases {
    let got = refint::unescape_literal(raw);
    if got != *want {
      f.fail("unescape_literal", format!("{raw:?}: expected {want:?}, got {got:?}"));
    }
  }
  let ints: &[(&str, Option<i32>)] = &[
    ("0", Some(0)),
    ("-0", None),
    ("12", Some(12)),
    ("-12", Some(-12)),
    ("012", None),
    ("+1", None),
    (" 1", None),
    ("1 ", None),
    ("", None),
    ("-", None),
    ("2147483647", Some(i32::MAX)),
    ("2147483648", None),
    ("-2147483648", Some(i32::MIN)),
    ("-2147483649", None),
    ("1e3", None),
    ("0x10", None),
  ];
  for (s, want) in ints {
    let got = refint::parse_canonical_int(s);
    if got != *want {
      f.fail("parse_canonical_int", format!("{s:?}: expected {want:?}, got {got:?}"));
    }
  }
  println!("ok   [unit checks]");
}

/// `calib_ref run <file.sam>`: interpret one file (module `Test`, std available) and print the
/// trace; a debugging aid, not part of the calibration
fn run_file(path: &str) {
  let src = std::fs::read_to_string(path).expect("readable source file");
  let limits = Limits { max_steps: u64::MAX, max_depth: 100_000, max_lines: 1_000_000 };
  let t0 = Instant::now();
  match run_src(&src, &limits) {
    Ok((trace, stats)) => {
      print!("{}", trace.stdout());
      println!("-- ending: {:?}", trace.ending);
      println!("-- ub: {}", ub_string(&trace.ub));
      println!("-- {stats:?}");
      println!("-- {:.3}s", t0.elapsed().as_secs_f64());
    }
    Err(e) => {
      println!("{e}");
      std::process::exit(2);
    }
  }
}

fn main() {
  let argv: Vec<String> = std::env::args().collect();
  if argv.len() == 3 && argv[1] == "run" {
    run_file(&argv[2]);
    return;
  }
  let mut f = Failures(Vec::new());
  let t0 = Instant::now();

  all_tests(&mut f);
  corpus_sweep(&mut f);
  unit_checks(&mut f);
  run_function_checks(&mut f);

  let d = Limits::default();

  // NOTE: spec 6.13.1 allows `let x = 1; let x = x + 1;` (rebinding / shadowing), but the real
  // type checker rejects every reuse of a visible name ("Name `x` collides with a previously
  // defined name"), so shadowing cannot occur in a checked program.  The interpreter implements
  // it anyway (newest binding wins); what can be calibrated is scoping: names are reusable in
  // sibling scopes (blocks, match arms, lambdas) and do not leak out of them.
  match run_src(
    "class Main { function main(): unit = { let x = 1; let x = x + 1; Process.println(Str.fromInt(x)); } }",
    &d,
  ) {
    Err(e) if e.contains("collides") => {
      println!("ok   [shadowing is rejected by the checker (spec 6.13.1 disagrees)]")
    }
    Err(e) => f.fail("shadowing", e),
    Ok((t, _)) => {
      // the checker accepts it (after a fix): then the spec semantics must hold
      if t.lines != vec!["2".to_string()] || t.ending != Ending::Return {
        f.fail("shadowing", format!("{t:?}"));
      } else {
        println!("ok   [shadowing]");
      }
    }
  }
  check_case(
    &mut f,
    Expect {
      name: "scoping",
      src: r#"
import { Option } from std.option;
class Main {
  function pick(o: Option<int>, p: Option<int>): int = {
    let a = match o { Some(v) -> v, None -> 0 };
    let b = match p { Some(v) -> v * 10, None -> 0 };
    a + b
  }
  function main(): unit = {
    let x = 1;
    let y = {
      let t = x * 10;
      Process.println(Str.fromInt(t));
      t + 1
    };
    let z = {
      let t = y * 10;
      Process.println(Str.fromInt(t));
      t + 1
    };
    Process.println(Str.fromInt(x + y + z));
    let f = (t: int) -> { let u = t + x; u * 2 };
    let g = (t: int) -> { let u = t - x; u * 3 };
    Process.println(Str.fromInt(f(1) + g(1)));
    Process.println(Str.fromInt(Main.pick(Option.Some(3), Option.Some(4))));
    if x == 1 { let w = 5; Process.println(Str.fromInt(w)) } else { let w = 6; Process.println(Str.fromInt(w)) }
  }
}
"#,
      lines: &["10", "110", "123", "4", "43", "5"],
      ending: Ending::Return,
      ub: no_ub(),
      limits: d,
    },
  );

  check_case(
    &mut f,
    Expect {
      name: "closures capture",
      src: r#"
class Counter(val v: Vec<int>) {
  function make(): Counter = Counter.init(Vec.of(0))
  method next(): int = { let n = this.v.get(0) + 1; this.v.set(0, n); n }
}
class Main {
  function adder(n: int): (int) -> int = (x) -> x + n
  function compose(f: (int) -> int, g: (int) -> int): (int) -> int = (x) -> g(f(x))
  function main(): unit = {
    let a = 10;
    let add = Main.adder(a);
    let big = 1000;
    Process.println(Str.fromInt(add(1)));
    Process.println(Str.fromInt(big));
    let both = Main.compose(add, (x) -> x * 2);
    Process.println(Str.fromInt(both(5)));
    let c = Counter.make();
    let tick = () -> c.next();
    let _ = tick();
    let _ = tick();
    Process.println(Str.fromInt(tick()));
    let k = 7;
    let nested = (x: int) -> (y: int) -> x * k + y;
    Process.println(Str.fromInt(nested(3)(4)));
  }
}
"#,
      lines: &["11", "1000", "30", "3", "25"],
      ending: Ending::Return,
      ub: no_ub(),
      limits: d,
    },
  );

  check_case(
    &mut f,
    Expect {
      name: "or-pattern binds first alternative",
      src: r#"
import { Option } from std.option;
import { Pair } from std.tuples;
class R(A(int), B(int), C(int, int)) {}
class Main {
  function pick(p: Pair<Option<int>, Option<int>>): int =
    match p {
      (Some(x), _) | (_, Some(x)) -> x,
      (None, None) -> -1,
    }
  function tag(r: R): int = match r { A(x) | B(x) -> x, C(x, y) -> x * y }
  function main(): unit = {
    Process.println(Str.fromInt(Main.pick((Option.Some(1), Option.Some(2)))));
    Process.println(Str.fromInt(Main.pick((Option.None<int>(), Option.Some(2)))));
    Process.println(Str.fromInt(Main.pick((Option.None<int>(), Option.None<int>()))));
    Process.println(Str.fromInt(Main.tag(R.A(5))));
    Process.println(Str.fromInt(Main.tag(R.B(6))));
    Process.println(Str.fromInt(Main.tag(R.C(6, 7))));
  }
}
"#,
      lines: &["1", "2", "-1", "5", "6", "42"],
      ending: Ending::Return,
      ub: no_ub(),
      limits: d,
    },
  );

  check_case(
    &mut f,
    Expect {
      name: "nested variant patterns, first arm wins",
      src: r#"
import { Option } from std.option;
import { Result } from std.result;
class Tree(Leaf, Node(Tree, int, Tree)) {
  method sum(): int = match this { Leaf -> 0, Node(l, v, r) -> l.sum() + v + r.sum() }
  method shape(): Str =
    match this {
      Leaf -> "leaf",
      Node(Leaf, _, Leaf) -> "single",
      Node(Node(_, v, _), _, Leaf) -> "left " :: Str.fromInt(v),
      Node(_, _, Node(_, v, _)) -> "right " :: Str.fromInt(v),
      Node(_, _, _) -> "unreachable",
    }
}
class Main {
  function f(v: Option<Result<int, Str>>): Str =
    match v {
      Some(Ok(n)) -> "ok " :: Str.fromInt(n),
      Some(Error(s)) -> "err " :: s,
      None -> "none",
    }
  function first(v: Option<int>): Str = match v { _ -> "wild", Some(_) -> "some", None -> "none" }
  function main(): unit = {
    Process.println(Main.f(Option.Some(Result.Ok<int, Str>(3))));
    Process.println(Main.f(Option.Some(Result.Error<int, Str>("bad"))));
    Process.println(Main.f(Option.None()));
    let t = Tree.Node(Tree.Node(Tree.Leaf(), 1, Tree.Leaf()), 2, Tree.Node(Tree.Leaf(), 3, Tree.Leaf()));
    Process.println(Str.fromInt(t.sum()));
    Process.println(t.shape());
    Process.println(Tree.Node(Tree.Node(Tree.Leaf(), 9, Tree.Leaf()), 2, Tree.Leaf()).shape());
    Process.println(Tree.Node(Tree.Leaf(), 2, Tree.Leaf()).shape());
    Process.println(Tree.Leaf().shape());
    Process.println(Main.first(Option.Some(1)));
  }
}
"#,
      lines: &["ok 3", "err bad", "none", "6", "right 3", "left 9", "single", "leaf", "wild"],
      ending: Ending::Return,
      ub: no_ub(),
      limits: d,
    },
  );

  check_case(
    &mut f,
    Expect {
      name: "struct pattern with as, tuples",
      src: r#"
class P(val x: int, val y: int, val name: Str) {
  method swap(): P = { let { x as a, y as b, name } = this; P.init(b, a, name) }
}
class Main {
  function main(): unit = {
    let p = P.init(1, 2, "pt").swap();
    let { y, x as first, name as _ } = p;
    Process.println(Str.fromInt(first) :: "," :: Str.fromInt(y) :: "," :: p.name);
    let { name as n, x as _, y as _ } = p;
    Process.println(n);
    let t = (1, "two", (3, true));
    let (a, b, (c, d)) = t;
    Process.println(Str.fromInt(a) :: b :: Str.fromInt(c) :: (if d { "T" } else { "F" }));
    Process.println(Str.fromInt(t.e0) :: t.e1 :: Str.fromInt(t.e2.e0));
    Process.println(Str.fromInt((7, 8).first() + (7, 8).second()));
    let { e0, e1 as (q, _) } = (5, (6, 7));
    Process.println(Str.fromInt(e0 * q));
  }
}
"#,
      lines: &["2,1,pt", "pt", "1two3T", "1two3", "15", "30"],
      ending: Ending::Return,
      ub: no_ub(),
      limits: d,
    },
  );

  check_case(
    &mut f,
    Expect {
      name: "if-let",
      src: r#"
import { Option } from std.option;
class Main {
  function get(o: Option<Option<int>>): int =
    if let Some(Some(x)) = o { x + 1 } else if let Some(None) = o { -1 } else { -2 }
  function main(): unit = {
    Process.println(Str.fromInt(Main.get(Option.Some(Option.Some(41)))));
    Process.println(Str.fromInt(Main.get(Option.Some(Option.None<int>()))));
    Process.println(Str.fromInt(Main.get(Option.None())));
    let x = 5;
    let r = if let Some(q) = Option.Some(x * 2) { q } else { x };
    Process.println(Str.fromInt(r));
    Process.println(Str.fromInt(x));
    if let (Some(y), _) = (Option.Some(9), 1) { Process.println(Str.fromInt(y)) } else { Process.println("no") }
  }
}
"#,
      lines: &["42", "-1", "-2", "10", "5", "9"],
      ending: Ending::Return,
      ub: no_ub(),
      limits: d,
    },
  );

  check_case(
    &mut f,
    Expect {
      name: "method / function references as values",
      src: r#"
import { List } from std.list;
class Acc(val base: int) {
  method plus(n: int): int = this.base + n
  function twice(n: int): int = n * 2
  function mk(b: int): Acc = Acc.init(b)
}
class Shape(Circle(int), Square(int)) {
  method area(): int = match this { Circle(r) -> 3 * r * r, Square(s) -> s * s }
}
class Main {
  function apply(f: (int) -> int, v: int): int = f(v)
  function noisy(tag: Str): Acc = { Process.println("eval " :: tag); Acc.init(1) }
  function main(): unit = {
    let a = Acc.init(100);
    let m = a.plus;
    Process.println(Str.fromInt(m(5)));
    Process.println(Str.fromInt(Main.apply(a.plus, 7)));
    Process.println(Str.fromInt(Main.apply(Acc.twice, 21)));
    let ctor = Acc.init;
    Process.println(Str.fromInt(ctor(3).plus(4)));
    let mk = Shape.Circle;
    Process.println(Str.fromInt(mk(2).area()));
    let p = Process.println;
    p("via ref");
    let bound = Main.noisy("receiver").plus;
    Process.println("bound made");
    Process.println(Str.fromInt(bound(1)));
    Process.println(Str.fromInt(bound(2)));
    let conv = Str.fromInt;
    Process.println(conv(12) :: conv(34));
    let parse = "77".toInt;
    Process.println(Str.fromInt(parse() + 1));
    let v = Vec.empty<int>();
    let push = v.push;
    push(4);
    push(5);
    Process.println(Str.fromInt(v.length() * 10 + v.get(1)));
  }
}
"#,
      lines: &[
        "105",
        "107",
        "42",
        "7",
        "12",
        "via ref",
        "eval receiver",
        "bound made",
        "2",
        "3",
        "1234",
        "78",
        "25",
      ],
      ending: Ending::Return,
      ub: no_ub(),
      limits: d,
    },
  );

  check_case(
    &mut f,
    Expect {
      name: "interface-bounded generic dispatch",
      src: r#"
interface Show { method show(): Str }
interface Sized2 : Show { method size(): int }
class Cat(val name: Str) : Sized2 {
  method show(): Str = "cat " :: this.name
  method size(): int = 4
}
class Dog(val age: int) : Sized2 {
  method show(): Str = "dog " :: Str.fromInt(this.age)
  method size(): int = 30
}
class Cell<T: Show>(val item: T) : Show {
  method show(): Str = "[" :: this.item.show() :: "]"
}
class Main {
  function <T: Show> describe(t: T): Str = "<" :: t.show() :: ">"
  function <T: Sized2> both(t: T): Str = t.show() :: "/" :: Str.fromInt(t.size())
  function <A: Show, B: Show> two(a: A, b: B): Str = Main.describe(a) :: Main.describe(b)
  function main(): unit = {
    Process.println(Main.describe(Cat.init("tom")));
    Process.println(Main.describe(Dog.init(3)));
    Process.println(Main.both(Dog.init(5)));
    Process.println(Main.two(Cat.init("a"), Dog.init(1)));
    Process.println(Main.describe(Cell.init(Cell.init(Cat.init("in")))));
  }
}
"#,
      lines: &["<cat tom>", "<dog 3>", "dog 5/30", "<cat a><dog 1>", "<[[cat in]]>"],
      ending: Ending::Return,
      ub: no_ub(),
      limits: d,
    },
  );

  check_case(
    &mut f,
    Expect {
      name: "evaluation order and short circuit",
      src: r#"
class Main {
  function t(tag: Str, v: int): int = { Process.println(tag); v }
  function b(tag: Str, v: bool): bool = { Process.println(tag); v }
  function getF(tag: Str): (int, int) -> int = { Process.println(tag); (x, y) -> x - y }
  function main(): unit = {
    let r = Main.getF("callee")(Main.t("arg1", 10), Main.t("arg2", 3));
    Process.println(Str.fromInt(r));
    let _ = Main.b("l1", false) && Main.b("r1", true);
    let _ = Main.b("l2", true) || Main.b("r2", true);
    let _ = Main.b("l3", true) && Main.b("r3", false);
    let _ = (Main.t("t1", 1), Main.t("t2", 2), Main.t("t3", 3));
    let _ = if Main.b("cond", false) { Main.t("then", 1) } else { Main.t("else", 2) };
    let _ = Main.t("a", 1) + Main.t("b", 2) * Main.t("c", 3);
  }
}
"#,
      lines: &[
        "callee", "arg1", "arg2", "7", "l1", "l2", "l3", "r3", "t1", "t2", "t3", "cond", "else",
        "a", "b", "c",
      ],
      ending: Ending::Return,
      ub: no_ub(),
      limits: d,
    },
  );

  check_case(
    &mut f,
    Expect {
      name: "panic after println",
      src: r#"
class Main {
  function check(n: int): int = if n > 2 { Process.panic("too big: " :: Str.fromInt(n)) } else { n }
  function main(): unit = {
    Process.println("before");
    let _ = Main.check(1);
    Process.println("middle");
    let _ = Main.check(3);
    Process.println("after");
  }
}
"#,
      lines: &["before", "middle"],
      ending: Ending::Panic("too big: 3".to_string()),
      ub: no_ub(),
      limits: d,
    },
  );

  check_case(
    &mut f,
    Expect {
      name: "Vec operations",
      src: r#"
class B(val n: int) {}
class Main {
  function yn(b: bool): Str = if b { "y" } else { "n" }
  function main(): unit = {
    let v = Vec.empty<int>();
    v.push(1); v.push(2); v.push(3);
    Process.println(Str.fromInt(v.length()));
    Process.println(Str.fromInt(v.pop()));
    v.set(0, 10);
    Process.println(Str.fromInt(v.get(0) + v.get(1)));
    let w = Vec.withCapacity<int>(8);
    w.reserve(100);
    w.push(10); w.push(2);
    Process.println(Main.yn(v.eq(w)));
    w.push(3);
    Process.println(Main.yn(v.eq(w)));
    let s1 = Vec.of("ab");
    let s2 = Vec.of("a" :: "b");
    Process.println(Main.yn(s1.eq(s2)));
    let b = B.init(1);
    let o1 = Vec.of(b);
    let o2 = Vec.of(b);
    let o3 = Vec.of(B.init(1));
    Process.println(Main.yn(o1.eq(o2)) :: Main.yn(o1.eq(o3)) :: Main.yn(o1.eq(o1)));
    let alias = v;
    alias.push(99);
    Process.println(Str.fromInt(v.length()));
  }
}
"#,
      lines: &["3", "3", "12", "y", "n", "y", "yny", "3"],
      ending: Ending::Return,
      ub: no_ub(),
      limits: d,
    },
  );

  for (name, body, lines) in [
    ("Vec bounds: get", "let _ = v.get(2);", vec!["start"]),
    ("Vec bounds: get negative", "let _ = v.get(0 - 1);", vec!["start"]),
    ("Vec bounds: set", "v.set(2, 1);", vec!["start"]),
    ("Vec bounds: pop", "let _ = v.pop(); let _ = v.pop(); let _ = v.pop();", vec!["start"]),
  ] {
    let src = format!(
      r#"
class Main {{
  function main(): unit = {{
    let v = Vec.empty<int>();
    v.push(1); v.push(2);
    Process.println("start");
    {body}
    Process.println("unreachable");
  }}
}}
"#
    );
    check_case(
      &mut f,
      Expect { name, src: &src, lines: &lines, ending: Ending::VecBounds, ub: no_ub(), limits: d },
    );
  }

  check_case(
    &mut f,
    Expect {
      name: "Vec capacity flag",
      src: r#"
class Main {
  function main(): unit = {
    let v = Vec.withCapacity<int>(10);
    Process.println(if v.capacity() >= 10 { "ok" } else { "small" });
  }
}
"#,
      lines: &["ok"],
      ending: Ending::Return,
      ub: UbFlags { capacity_observed: true, ..UbFlags::default() },
      limits: d,
    },
  );

  check_case(
    &mut f,
    Expect {
      name: "overflow flag",
      src: r#"
class Main {
  function main(): unit = {
    let big = 2147483647;
    Process.println(Str.fromInt(big + 1));
    Process.println(Str.fromInt(big * 2));
    Process.println(Str.fromInt(-2147483648 - 1));
    let m = -2147483648;
    Process.println(Str.fromInt(-m));
    Process.println(Str.fromInt(7 / 2) :: " " :: Str.fromInt(-7 / 2) :: " " :: Str.fromInt(-7 % 2) :: " " :: Str.fromInt(7 % -2));
  }
}
"#,
      lines: &["-2147483648", "-2", "2147483647", "-2147483648", "3 -3 -1 1"],
      ending: Ending::Return,
      ub: UbFlags { overflow: true, ..UbFlags::default() },
      limits: d,
    },
  );

  check_case(
    &mut f,
    Expect {
      name: "no overflow flag on in-range arithmetic",
      src: r#"
class Main {
  function main(): unit = {
    Process.println(Str.fromInt(2147483646 + 1));
    Process.println(Str.fromInt(-2147483647 - 1));
    Process.println(Str.fromInt(46341 * 46340));
    Process.println(Str.fromInt(-(-2147483647)));
  }
}
"#,
      lines: &["2147483647", "-2147483648", "2147441940", "2147483647"],
      ending: Ending::Return,
      ub: no_ub(),
      limits: d,
    },
  );

  for (name, expr) in [
    ("division by zero", "10 / z"),
    ("remainder by zero", "10 % z"),
    ("INT_MIN / -1", "(-2147483648) / (z - 1)"),
    ("INT_MIN % -1", "(-2147483648) % (z - 1)"),
  ] {
    let src = format!(
      r#"
class Main {{
  function zero(): int = 0
  function main(): unit = {{
    let z = Main.zero();
    Process.println("start");
    Process.println(Str.fromInt({expr}));
    Process.println("unreachable");
  }}
}}
"#
    );
    check_case(
      &mut f,
      Expect {
        name,
        src: &src,
        lines: &["start"],
        ending: Ending::ArithTrap("div by zero".to_string()),
        ub: UbFlags { div_zero: true, ..UbFlags::default() },
        limits: d,
      },
    );
  }

  check_case(
    &mut f,
    Expect {
      name: "toInt",
      src: r#"
class Main {
  function main(): unit = {
    Process.println(Str.fromInt("123".toInt() + 1));
    Process.println(Str.fromInt("-2147483648".toInt()));
    Process.println(Str.fromInt(Str.fromInt(-45).toInt()));
  }
}
"#,
      lines: &["124", "-2147483648", "-45"],
      ending: Ending::Return,
      ub: no_ub(),
      limits: d,
    },
  );

  check_case(
    &mut f,
    Expect {
      name: "toInt bad numeral flag",
      src: r#"
class Main {
  function main(): unit = {
    let _ = "12x".toInt();
    Process.println("continues");
  }
}
"#,
      lines: &["continues"],
      ending: Ending::Return,
      ub: UbFlags { bad_to_int: true, ..UbFlags::default() },
      limits: d,
    },
  );

  if let Some(stats) = check_case(
    &mut f,
    Expect {
      name: "string escapes",
      src: r#"
class Main {
  function main(): unit = {
    Process.println("a\tb");
    Process.println("q\"q");
    Process.println("back\\slash");
    Process.println("plain");
  }
}
"#,
      lines: &["a\tb", "q\"q", "back\\slash", "plain"],
      ending: Ending::Return,
      ub: no_ub(),
      limits: d,
    },
  ) {
    if stats.escape_literals != 2 || stats.quote_literals != 1 || !stats.saw_escaped_literal() {
      f.fail(
        "string escapes",
        format!(
          "escape statistics: escape_literals={} quote_literals={}",
          stats.escape_literals, stats.quote_literals
        ),
      );
    }
  }

  check_case(
    &mut f,
    Expect {
      name: "== on primitives and strings",
      src: r#"
class Main {
  function yn(b: bool): Str = if b { "y" } else { "n" }
  function main(): unit = {
    let s = "ab";
    Process.println(Main.yn(s == "a" :: "b") :: Main.yn(s != "ab") :: Main.yn(1 == 1) :: Main.yn(true != false) :: Main.yn(Str.fromInt(12) == "12"));
  }
}
"#,
      lines: &["ynyyy"],
      ending: Ending::Return,
      ub: no_ub(),
      limits: d,
    },
  );

  // `==` on heap values: reference identity by default (std.map / AllTests need it), counted in
  // the statistics; inconclusive ending when switched off
  let obj_eq_src = r#"
class B(val n: int) {}
class E(X, Y, Z(int)) {}
class Main {
  function yn(b: bool): Str = if b { "y" } else { "n" }
  function main(): unit = {
    let b = B.init(1);
    let c = b;
    Process.println("start");
    Process.println(Main.yn(b == c) :: Main.yn(b != c) :: Main.yn(b == B.init(1)));
    Process.println(Main.yn(E.X() == E.X()) :: Main.yn(E.X() == E.Y()) :: Main.yn(E.Z(1) == E.X()));
    let z = E.Z(1);
    Process.println(Main.yn(z == z) :: Main.yn(z == E.Z(1)));
    let fn1 = (x: int) -> x;
    Process.println(Main.yn(fn1 == fn1));
    let v = Vec.of(1);
    Process.println(Main.yn(v == v) :: Main.yn(v == Vec.of(1)));
  }
}
"#;
  if let Some(stats) = check_case(
    &mut f,
    Expect {
      name: "== on objects: reference identity",
      src: obj_eq_src,
      lines: &["start", "ynn", "ynn", "yn", "y", "yn"],
      ending: Ending::Return,
      ub: no_ub(),
      limits: d,
    },
  ) {
    if stats.object_eq != 11 || stats.ambiguous_object_eq != 3 {
      f.fail(
        "== on objects: reference identity",
        format!("object_eq={} ambiguous_object_eq={}", stats.object_eq, stats.ambiguous_object_eq),
      );
    }
  }
  {
    let mut heap = Heap::new();
    let project = Project::single("Test", obj_eq_src).with_std();
    let checked = front::check_project(&mut heap, &project);
    let entry = front::mod_ref(&mut heap, "Test");
    let (t, _) = refint::run_with_options(
      &heap,
      &checked.checked,
      entry,
      &d,
      refint::Options { object_identity_eq: false },
    );
    if t.lines == vec!["start".to_string()]
      && t.ending == Ending::Harness("== on non-primitive".to_string())
    {
      println!("ok   [== on objects: inconclusive when identity is switched off]");
    } else {
      f.fail("== on objects off", format!("{t:?}"));
    }
  }

  // self tail recursion: 1,000,000 iterations in static functions, methods, through if / match /
  // && and with a depth limit far below the iteration count
  let shallow = Limits { max_steps: 200_000_000, max_depth: 500, max_lines: 1000 };
  if let Some(stats) = check_case(
    &mut f,
    Expect {
      name: "tail-recursive loop 1,000,000",
      src: r#"
class L(Nil, Cons(int, L)) {
  method len(acc: int): int = match this { Nil -> acc, Cons(_, rest) -> rest.len(acc + 1) }
  function build(n: int, acc: L): L = if n == 0 { acc } else { L.build(n - 1, L.Cons(n, acc)) }
}
class Main {
  function loop(i: int, acc: int): int = if i == 0 { acc } else { Main.loop(i - 1, acc + i % 7) }
  function all(i: int): bool = i == 0 || (i > 0 && Main.all(i - 1))
  function count(i: int, acc: int): int = {
    let next = i - 1;
    if i <= 0 { acc } else { let a = acc + 1; Main.count(next, a) }
  }
  function main(): unit = {
    Process.println(Str.fromInt(Main.loop(1000000, 0)));
    Process.println(if Main.all(1000000) { "all" } else { "not all" });
    Process.println(Str.fromInt(Main.count(1000000, 0)));
    Process.println(Str.fromInt(L.build(1000000, L.Nil()).len(0)));
  }
}
"#,
      lines: &["2999998", "all", "1000000", "1000000"],
      ending: Ending::Return,
      ub: no_ub(),
      limits: shallow,
    },
  ) {
    if stats.max_depth > 10 || stats.tail_calls < 4_000_000 {
      f.fail(
        "tail-recursive loop 1,000,000",
        format!("max_depth {} tail_calls {}", stats.max_depth, stats.tail_calls),
      );
    }
  }

  check_case(
    &mut f,
    Expect {
      name: "non-tail infinite recursion",
      src: r#"
class Main {
  function down(i: int): int = 1 + Main.down(i + 1)
  function main(): unit = {
    Process.println("start");
    Process.println(Str.fromInt(Main.down(0)));
  }
}
"#,
      lines: &["start"],
      ending: Ending::StackExhausted,
      ub: no_ub(),
      limits: d,
    },
  );

  check_case(
    &mut f,
    Expect {
      name: "mutual recursion is not trampolined",
      src: r#"
class Main {
  function even(i: int): bool = if i == 0 { true } else { Main.odd(i - 1) }
  function odd(i: int): bool = if i == 0 { false } else { Main.even(i - 1) }
  function main(): unit = {
    Process.println(if Main.even(1000) { "even" } else { "odd" });
    Process.println(if Main.even(1000000) { "even" } else { "odd" });
  }
}
"#,
      lines: &["even"],
      ending: Ending::StackExhausted,
      ub: no_ub(),
      limits: d,
    },
  );

  // a very deep non-tail recursion with a huge max_depth must end in StackExhausted through the
  // host stack guard, not crash the process
  check_case(
    &mut f,
    Expect {
      name: "host stack guard",
      src: r#"
class Main {
  function down(i: int): int = 1 + Main.down(i + 1)
  function main(): unit = Process.println(Str.fromInt(Main.down(0)))
}
"#,
      lines: &[],
      ending: Ending::StackExhausted,
      ub: no_ub(),
      limits: Limits { max_steps: u64::MAX, max_depth: usize::MAX, max_lines: 10 },
    },
  );

  // deep (non-tail) recursion well within max_depth, and release of a long list
  check_case(
    &mut f,
    Expect {
      name: "deep non-tail recursion within limits",
      src: r#"
class L(Nil, Cons(int, L)) {
  method sum(): int = match this { Nil -> 0, Cons(v, rest) -> v + rest.sum() }
  function range(n: int): L = if n == 0 { L.Nil() } else { L.Cons(n, L.range(n - 1)) }
}
class Main {
  function main(): unit = Process.println(Str.fromInt(L.range(50000).sum()))
}
"#,
      lines: &["1250025000"],
      ending: Ending::Return,
      ub: no_ub(),
      limits: Limits { max_steps: 100_000_000, max_depth: 60_000, max_lines: 10 },
    },
  );

  check_case(
    &mut f,
    Expect {
      name: "step limit",
      src: r#"
class Main {
  function spin(i: int): int = Main.spin(i + 1)
  function main(): unit = { Process.println("start"); let _ = Main.spin(0); }
}
"#,
      lines: &["start"],
      ending: Ending::StepLimit,
      ub: UbFlags::default(),
      limits: Limits { max_steps: 3_000_000, max_depth: 100, max_lines: 10 },
    },
  );

  check_case(
    &mut f,
    Expect {
      name: "line limit",
      src: r#"
class Main {
  function spam(i: int): unit = { Process.println(Str.fromInt(i)); Main.spam(i + 1) }
  function main(): unit = Main.spam(0)
}
"#,
      lines: &["0", "1", "2"],
      ending: Ending::StepLimit,
      ub: UbFlags::default(),
      limits: Limits { max_steps: 3_000_000, max_depth: 100, max_lines: 3 },
    },
  );

  println!("total wall time {:.2}s", t0.elapsed().as_secs_f64());
  if f.0.is_empty() {
    println!("CALIBRATION OK");
  } else {
    println!("CALIBRATION FAILED: {} failure(s): {:?}", f.0.len(), f.0);
    std::process::exit(1);
  }
}
