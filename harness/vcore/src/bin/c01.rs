fn main() {
  vcore::diffcheck::main_for("C01");
}
