//! C18 — the standard library's Map, Set and List behave like finite maps, sets and sequences.
//!
//! Runtime monitoring with a reference-model oracle: random operation sequences are rendered as
//! samlang *driver programs* (module `Drv`, straight-line SSA over three registers of one
//! collection kind) that print a canonical rendering after every step.  A Rust model
//! (`BTreeMap<i32, V>`, `BTreeSet<i32>`, `Vec<i32>`) computes the expected lines.  The program
//! is executed by the reference interpreter (every sequence) and, for a sample, compiled and run
//! by the WasmGC interpreter and as erased TypeScript under node.
//!
//! Readings taken where the documentation (spec §11) is silent — the mathematical meaning:
//!  * `union` prefers `this` (documented); `customizedUnion(other, f)`: keys of one side are
//!    kept, conflicts resolved by `f(k, thisValue, otherValue)`, `None` drops the key;
//!  * `merge(other, f)`: for every key of either map `f(k, this.get(k), other.get(k))`, the key
//!    is present in the result iff `f` returns `Some` (f is never asked about `(None, None)`);
//!  * `update(k, f)`: `f(get(k))`, `Some(v)` binds, `None` removes;
//!  * `split(k)` = (entries < k, get(k), entries > k); `partition p` = (filter p, filter !p);
//!  * `compare(other, f)`: lexicographic comparison of the ascending entry sequences, keys by
//!    their `compare`, then values by `f` (the OCaml original `flow_map.ml` does exactly this);
//!    only the sign is observed.  `equal(other, f)`: same keys and `f` holds for every pair;
//!  * Set.`compare(other, f)`: the same lexicographic order with elements ordered by their
//!    `compare` and ties (compare == 0) decided by `f`; Set.`equal(other, f)`: pairwise
//!    compare == 0 and `f` (both as the source spells them; they agree with each other);
//!  * `exists` over an empty collection is `false`, `forAll` is `true`;
//!  * `min`/`max`/`minKey`/`maxKey` are the least / greatest key by `compare`;
//!  * Set.`map f` = { f(x) | x in s }.
//! The tree height and root key are printed but never compared (they are not part of the abstract
//! value); the driver's own AVL check (stored height correct, |hl-hr| <= 2, in-order keys strictly
//! ascending, node count == size()) prints `ok` / `BAD-*` and IS compared.
//!
//! Violation signatures: `<coll>.<member>:wrong-entries|wrong-elements|wrong-result|wrong-iteration|panic`,
//! `avl-shape:<coll>.<member>`, `backend-disagrees:<wasm|ts>:<coll>.<member>`,
//! `backend:compile-failed:<panic location>`.  After the run, the two occurrences of every
//! signature with the lowest sequence numbers are delta-debugged (op list) and written as replays.
//!
//! Switches: `C18_SELFTEST=1` breaks the MODEL on purpose (map.insert keeps the old value,
//! list.foldRight folds from the left) — the run must then print VIOLATION lines for
//! `map.insert:wrong-entries` and `list.foldRight:wrong-result` and exit 1; never set by default.
//! `C18_NSEQ=n` overrides the number of sequences.  `c18 run <ref|wasm|ts> <file.sam>` executes one
//! driver file (module `Drv`, all of /repo/std available) and prints its trace.
use samlang_heap::Heap;
use serde_json::json;
use std::collections::{BTreeMap, BTreeSet, HashMap, HashSet};
use std::panic::AssertUnwindSafe;
use std::sync::{Mutex, OnceLock};
use std::time::Instant;
use vcore::ddmin::ddmin_list;
use vcore::evidence::{Run, env_seed, env_tier, hash_str};
use vcore::front::{self, Project};
use vcore::rng::Rng;
use vcore::trace::{Ending, Limits, Trace};
use vcore::{refint, tsrun, wasmi};

const PRELUDE: &str = r#"import { Int } from std.boxed;
import { Comparable } from std.interfaces;
import { List } from std.list;
import { Map } from std.map;
import { Option } from std.option;
import { Set } from std.set;
import { Pair, Triple } from std.tuples;

class E(val key: int, val tag: int) : Comparable<E> {
  method compare(other: E): int = this.key - other.key
}

class D {
  function toE(s: Set<Int>, m: int): Set<E> =
    s.fold(Set.empty<E>(), (acc, x) -> acc.insert(E.init(x.value, x.value % m)))
  function si(v: int): Str = Str.fromInt(v)
  function ss(v: Str): Str = v
  function sk(k: Int): Str = Str.fromInt(k.value)
  function sb(b: bool): Str = if b { "true" } else { "false" }
  function sgn(c: int): Str = if c < 0 { "neg" } else if c > 0 { "pos" } else { "zero" }
  function oi(o: Option<int>, d: int): int = match o { None -> d, Some(v) -> v }
  function <T> so(o: Option<T>, f: (T) -> Str): Str =
    match o { None -> "None", Some(v) -> "Some(" :: f(v) :: ")" }
  function <T> sl(l: List<T>, f: (T) -> Str): Str =
    match l { Nil -> "", Cons(v, rest) -> D.slx(rest, f, f(v)) }
  function <T> slx(l: List<T>, f: (T) -> Str, acc: Str): Str =
    match l { Nil -> acc, Cons(v, rest) -> D.slx(rest, f, acc :: "," :: f(v)) }
  function <T> len(l: List<T>, acc: int): int =
    match l { Nil -> acc, Cons(_, rest) -> D.len(rest, acc + 1) }
  function asc(l: List<int>): bool =
    match l {
      Nil -> true,
      Cons(a, rest) -> match rest { Nil -> true, Cons(b, _) -> a < b && D.asc(rest) },
    }
  function <V> se(l: List<Pair<Int, V>>, f: (V) -> Str): Str =
    D.sl(l, (p) -> D.sk(p.e0) :: "=" :: f(p.e1))
  function <V> hM(m: Map<Int, V>): Pair<int, bool> =
    match m {
      Empty -> (0, true),
      Leaf(_, _) -> (1, true),
      Node(h, _, _, l, r) -> {
        let (lh, lok) = D.hM(l);
        let (rh, rok) = D.hM(r);
        let real = if lh >= rh { lh + 1 } else { rh + 1 };
        let d = lh - rh;
        (real, lok && rok && h == real && d <= 2 && d >= -2)
      },
    }
  function <V> inM(m: Map<Int, V>, acc: List<int>): List<int> =
    match m {
      Empty -> acc,
      Leaf(k, _) -> List.Cons(k.value, acc),
      Node(_, k, _, l, r) -> D.inM(l, List.Cons(k.value, D.inM(r, acc))),
    }
  function <V> rootM(m: Map<Int, V>): Str =
    match m { Empty -> "-", Leaf(k, _) -> D.sk(k), Node(_, k, _, _, _) -> D.sk(k) }
  function <V> stM(m: Map<Int, V>, f: (V) -> Str): Str = {
    let (h, okh) = D.hM(m);
    let ks = D.inM(m, List.nil<int>());
    let shape = if !okh { "BAD-height" } else if !D.asc(ks) { "BAD-order" } else if D.len(ks, 0) != m.size() { "BAD-size" } else { "ok" };
    Str.fromInt(m.size()) :: "|" :: D.se(m.entries(), f) :: "|" :: shape :: "|h=" :: Str.fromInt(h) :: ";" :: D.rootM(m)
  }
  function hS(m: Set<Int>): Pair<int, bool> =
    match m {
      Empty -> (0, true),
      Leaf(_) -> (1, true),
      Node(h, _, l, r) -> {
        let (lh, lok) = D.hS(l);
        let (rh, rok) = D.hS(r);
        let real = if lh >= rh { lh + 1 } else { rh + 1 };
        let d = lh - rh;
        (real, lok && rok && h == real && d <= 2 && d >= -2)
      },
    }
  function inS(m: Set<Int>, acc: List<int>): List<int> =
    match m {
      Empty -> acc,
      Leaf(k) -> List.Cons(k.value, acc),
      Node(_, k, l, r) -> D.inS(l, List.Cons(k.value, D.inS(r, acc))),
    }
  function rootS(m: Set<Int>): Str =
    match m { Empty -> "-", Leaf(k) -> D.sk(k), Node(_, k, _, _) -> D.sk(k) }
  function stS(m: Set<Int>): Str = {
    let (h, okh) = D.hS(m);
    let ks = D.inS(m, List.nil<int>());
    let shape = if !okh { "BAD-height" } else if !D.asc(ks) { "BAD-order" } else if D.len(ks, 0) != m.size() { "BAD-size" } else { "ok" };
    Str.fromInt(m.size()) :: "|" :: D.sl(m.elements(), D.sk) :: "|" :: shape :: "|h=" :: Str.fromInt(h) :: ";" :: D.rootS(m)
  }
  function <T> stL(l: List<T>, f: (T) -> Str): Str = Str.fromInt(D.len(l, 0)) :: "|" :: D.sl(l, f)
}
"#;

#[derive(Clone, Copy, PartialEq, Eq, Debug, Hash, PartialOrd, Ord)]
enum Kind {
  MapI,
  MapS,
  Set,
  List,
}

impl Kind {
  fn name(self) -> &'static str {
    match self {
      Kind::MapI => "map<Int,int>",
      Kind::MapS => "map<Int,Str>",
      Kind::Set => "set<Int>",
      Kind::List => "list<int>",
    }
  }
  fn vt(self) -> &'static str {
    if self == Kind::MapS { "Str" } else { "int" }
  }
  fn sv(self) -> &'static str {
    if self == Kind::MapS { "D.ss" } else { "D.si" }
  }
}

#[derive(Clone, Copy, PartialEq, Eq, Debug)]
enum Range {
  Small,
  Wide,
}

#[derive(Clone, Debug, PartialEq, Eq)]
enum Val {
  I(i32),
  S(String),
}

impl Val {
  fn show(&self) -> String {
    match self {
      Val::I(i) => i.to_string(),
      Val::S(s) => s.clone(),
    }
  }
  fn lit(&self) -> String {
    match self {
      Val::I(i) => i.to_string(),
      Val::S(s) => format!("\"{s}\""),
    }
  }
  fn i(&self) -> i32 {
    match self {
      Val::I(i) => *i,
      Val::S(_) => 0,
    }
  }
  fn s(&self) -> &str {
    match self {
      Val::S(s) => s,
      Val::I(_) => "",
    }
  }
}

#[derive(Clone, Debug, PartialEq, Eq)]
enum Coll {
  M(BTreeMap<i32, Val>),
  S(BTreeSet<i32>),
  L(Vec<i32>),
}

impl Coll {
  fn m(&self) -> &BTreeMap<i32, Val> {
    match self {
      Coll::M(m) => m,
      _ => unreachable!(),
    }
  }
  fn s(&self) -> &BTreeSet<i32> {
    match self {
      Coll::S(m) => m,
      _ => unreachable!(),
    }
  }
  fn l(&self) -> &Vec<i32> {
    match self {
      Coll::L(m) => m,
      _ => unreachable!(),
    }
  }
  fn len(&self) -> usize {
    match self {
      Coll::M(m) => m.len(),
      Coll::S(m) => m.len(),
      Coll::L(m) => m.len(),
    }
  }
  fn render(&self) -> String {
    match self {
      Coll::M(m) => format!("{}|{}|ok", m.len(), m.iter().map(|(k, v)| format!("{k}={}", v.show())).collect::<Vec<_>>().join(",")),
      Coll::S(m) => format!("{}|{}|ok", m.len(), m.iter().map(|k| k.to_string()).collect::<Vec<_>>().join(",")),
      Coll::L(m) => format!("{}|{}", m.len(), m.iter().map(|k| k.to_string()).collect::<Vec<_>>().join(",")),
    }
  }
}

#[derive(Clone, Debug)]
struct Op {
  name: &'static str,
  d: usize,
  a: usize,
  b: usize,
  k: i32,
  v: Val,
  code: u8,
  c: i32,
  ks: Vec<i32>,
  flag: bool,
}

impl Op {
  fn show(&self) -> String {
    format!("{} d=r{} a=r{} b=r{} k={} v={} code={} c={} ks={:?} flag={}", self.name, self.d, self.a, self.b, self.k, self.v.lit(), self.code, self.c, self.ks, self.flag)
  }
}

/// (name, weight in tenths)
const MAP_OPS: &[(&str, u32)] = &[
  ("map.empty", 3), ("map.singleton", 4), ("map.isEmpty", 8), ("map.get", 14), ("map.containsKey", 10), ("map.insert", 100), ("map.split", 12), ("map.merge", 25), ("map.update", 30),
  ("map.customizedUnion", 25), ("map.union", 25), ("map.remove", 40), ("map.compare", 12), ("map.equal", 10), ("map.iter", 8), ("map.fold", 10), ("map.forAll", 10), ("map.exists", 10),
  ("map.filter", 10), ("map.partition", 10), ("map.size", 6), ("map.entries", 6), ("map.min", 8), ("map.max", 8), ("map.minKey", 8), ("map.maxKey", 8), ("map.keys", 8), ("map.map", 10),
];
const SET_OPS: &[(&str, u32)] = &[
  ("set.empty", 3), ("set.singleton", 4), ("set.isEmpty", 8), ("set.contains", 14), ("set.insert", 100), ("set.split", 12), ("set.union", 25), ("set.intersection", 20), ("set.disjoint", 10),
  ("set.diff", 20), ("set.subset", 12), ("set.remove", 40), ("set.fromList", 10), ("set.compare", 12), ("set.equal", 10), ("set.iter", 8), ("set.fold", 10), ("set.forAll", 10), ("set.exists", 10),
  ("set.filter", 10), ("set.partition", 10), ("set.size", 6), ("set.min", 8), ("set.max", 8), ("set.elements", 6), ("set.map", 10),
];
const LIST_OPS: &[(&str, u32)] = &[
  ("list.nil", 2), ("list.of", 3), ("list.cons", 60), ("list.length", 8), ("list.isEmpty", 8), ("list.first", 8), ("list.rest", 10), ("list.filter", 10), ("list.map", 10), ("list.filterMap", 10),
  ("list.iter", 8), ("list.contains", 10), ("list.forAll", 10), ("list.exists", 10), ("list.find", 10), ("list.findMap", 10), ("list.append", 12), ("list.reverseAndAppend", 12), ("list.fold", 10),
  ("list.foldRight", 10), ("list.bind", 8), ("list.flatten", 8), ("list.reverse", 10),
];

fn ops_of(kind: Kind) -> &'static [(&'static str, u32)] {
  match kind {
    Kind::MapI | Kind::MapS => MAP_OPS,
    Kind::Set => SET_OPS,
    Kind::List => LIST_OPS,
  }
}

const STRS: &[&str] = &["a", "b", "c", "", "xy", "a-long-string-over-15-bytes"];

// ---------------------------------------------------------------------------------------------
// closure catalogue: samlang text and Rust evaluation side by side

/// map predicate over (k: Int, v: V)
fn mpred_text(kind: Kind, code: u8, c: i32) -> String {
  match code {
    0 => "k.value % 2 == 0".into(),
    1 => if kind == Kind::MapS { "v == \"a\"".into() } else { "v % 3 == 0".into() },
    2 => format!("{c} > k.value"),
    3 => "true".into(),
    4 => "false".into(),
    _ => format!("{c} <= k.value"),
  }
}
fn mpred_eval(code: u8, c: i32, k: i32, v: &Val) -> bool {
  match code {
    0 => k % 2 == 0,
    1 => match v {
      Val::S(s) => s == "a",
      Val::I(i) => i % 3 == 0,
    },
    2 => k < c,
    3 => true,
    4 => false,
    _ => k >= c,
  }
}
/// map value transform over (k: Int, v: V) -> V (codes 0..=3)
fn mg_text(kind: Kind, code: u8) -> &'static str {
  if kind == Kind::MapS {
    match code {
      0 => "if v == \"a\" { \"b\" } else { \"a\" }",
      1 => "\"k\" :: Str.fromInt(k.value % 10)",
      2 => "\"\"",
      _ => "v",
    }
  } else {
    match code {
      0 => "(v + 1) % 1000",
      1 => "(v * 2) % 1000",
      2 => "(k.value % 7 + v) % 1000",
      _ => "v",
    }
  }
}
fn mg_eval(code: u8, k: i32, v: &Val) -> Val {
  match v {
    Val::S(s) => match code {
      0 => Val::S(if s == "a" { "b".into() } else { "a".into() }),
      1 => Val::S(format!("k{}", k % 10)),
      2 => Val::S(String::new()),
      _ => v.clone(),
    },
    Val::I(i) => match code {
      0 => Val::I((i + 1) % 1000),
      1 => Val::I((i * 2) % 1000),
      2 => Val::I((k % 7 + i) % 1000),
      _ => v.clone(),
    },
  }
}
/// the small step used inside `update` (code 2) on a present value
fn upd_text(kind: Kind) -> &'static str {
  if kind == Kind::MapS { "if w == \"a\" { \"b\" } else { \"a\" }" } else { "(w + 1) % 1000" }
}
fn upd_eval(v: &Val) -> Val {
  match v {
    Val::S(s) => Val::S(if s == "a" { "b".into() } else { "a".into() }),
    Val::I(i) => Val::I((i + 1) % 1000),
  }
}
fn updp_text(kind: Kind) -> &'static str {
  if kind == Kind::MapS { "w == \"a\"" } else { "w % 2 == 0" }
}
fn updp_eval(v: &Val) -> bool {
  match v {
    Val::S(s) => s == "a",
    Val::I(i) => i % 2 == 0,
  }
}
/// value comparison for Map.compare
fn vcmp_text(kind: Kind, code: u8) -> &'static str {
  match (kind == Kind::MapS, code) {
    (false, 0) => "x - y",
    (false, _) => "y - x",
    (true, 0) => "if x == y { 0 } else if x == \"a\" { -1 } else { 1 }",
    (true, _) => "0",
  }
}
fn vcmp_eval(code: u8, x: &Val, y: &Val) -> i32 {
  match (x, y) {
    (Val::I(a), Val::I(b)) => if code == 0 { a - b } else { b - a },
    _ => {
      if code != 0 || x == y {
        0
      } else if x.s() == "a" {
        -1
      } else {
        1
      }
    }
  }
}
/// predicate over a plain int expression `e` (set elements use `x.value`, lists use `x`)
fn ipred_text(e: &str, code: u8, c: i32) -> String {
  match code {
    0 => format!("{e} % 2 == 0"),
    1 => format!("{c} > {e}"),
    2 => "true".into(),
    3 => "false".into(),
    4 => format!("{c} <= {e}"),
    _ => format!("{e} % 3 == 0"),
  }
}
fn ipred_eval(code: u8, c: i32, x: i32) -> bool {
  match code {
    0 => x % 2 == 0,
    1 => x < c,
    2 => true,
    3 => false,
    4 => x >= c,
    _ => x % 3 == 0,
  }
}
/// Set.map element transform (x: Int) -> Int
fn smap_text(code: u8) -> &'static str {
  match code {
    0 => "Int.init(0 - x.value)",
    1 => "Int.init(x.value % 5)",
    2 => "Int.init(if 100 > x.value { x.value + 1 } else { x.value })",
    _ => "x",
  }
}
fn smap_eval(code: u8, x: i32) -> i32 {
  match code {
    0 => -x,
    1 => x % 5,
    2 => if x < 100 { x + 1 } else { x },
    _ => x,
  }
}
/// List.map element transform (x: int) -> int
fn lmap_text(code: u8) -> &'static str {
  match code {
    0 => "(x + 1) % 1000",
    1 => "(x * 2) % 1000",
    2 => "0 - x",
    _ => "x",
  }
}
fn lmap_eval(code: u8, x: i32) -> i32 {
  match code {
    0 => (x + 1) % 1000,
    1 => (x * 2) % 1000,
    2 => -x,
    _ => x,
  }
}
fn hash_step(acc: i32, x: i32) -> i32 {
  (acc * 31 + x) % 100003
}

// ---------------------------------------------------------------------------------------------
// driver program emission

fn klit(k: i32) -> String {
  format!("Int.init({k})")
}

fn init_expr(kind: Kind) -> String {
  match kind {
    Kind::MapI | Kind::MapS => format!("Map.empty<Int, {}>()", kind.vt()),
    Kind::Set => "Set.empty<Int>()".into(),
    Kind::List => "List.nil<int>()".into(),
  }
}

/// samlang statements of step `n`; `cur` holds the current variable of each register
fn emit_step(kind: Kind, n: usize, op: &Op, cur: &mut [String; 3], out: &mut String) {
  let a = cur[op.a].clone();
  let b = cur[op.b].clone();
  let dn = format!("r{}v{}", op.d, n);
  let vt = kind.vt();
  let sv = kind.sv();
  let st = |e: &str| -> String {
    match kind {
      Kind::MapI | Kind::MapS => format!("D.stM({e}, {sv})"),
      Kind::Set => format!("D.stS({e})"),
      Kind::List => format!("D.stL({e}, D.si)"),
    }
  };
  macro_rules! pl {
    ($tag:expr, $e:expr $(,)?) => {{
      let e: &str = $e;
      out.push_str(&format!("    Process.println(\"{n}:{} \" :: {e});\n", $tag))
    }};
  }
  // store `e` into the destination register and print its state
  macro_rules! store {
    ($e:expr) => {{
      out.push_str(&format!("    let {dn} = {};\n", $e));
      out.push_str(&format!("    Process.println(\"{n}:S \" :: {});\n", st(&dn)));
      cur[op.d] = dn.clone();
    }};
  }
  let k = klit(op.k);
  let v = op.v.lit();
  let (c, code) = (op.c, op.code);
  let none = format!("Option.None<{vt}>()");
  match op.name {
    // ------------------------------------------------------------------ Map
    "map.empty" => store!(format!("Map.empty<Int, {vt}>()")),
    "map.singleton" => store!(format!("Map.singleton({k}, {v})")),
    "map.isEmpty" => pl!("Q", &format!("D.sb({a}.isEmpty())")),
    "map.get" => pl!("Q", &format!("D.so({a}.get({k}), {sv})")),
    "map.containsKey" => pl!("Q", &format!("D.sb({a}.containsKey({k}))")),
    "map.insert" => store!(format!("{a}.insert({k}, {v})")),
    "map.remove" => store!(format!("{a}.remove({k})")),
    "map.split" => {
      out.push_str(&format!("    let (x{n}, y{n}, z{n}) = {a}.split({k});\n"));
      pl!("Q", &format!("D.so(y{n}, {sv})"));
      let (keep, other) = if op.flag { (format!("x{n}"), format!("z{n}")) } else { (format!("z{n}"), format!("x{n}")) };
      pl!("A", &st(&other));
      store!(keep);
    }
    "map.merge" => {
      let body = match code {
        0 => "match (x, y) { (Some(p), _) -> Option.Some(p), (None, q) -> q }".to_string(),
        1 => format!("match (x, y) {{ (Some(p), Some(_)) -> Option.Some(p), (Some(_), None) -> {none}, (None, _) -> {none} }}"),
        2 => format!("match (x, y) {{ (Some(p), None) -> Option.Some(p), (Some(_), Some(_)) -> {none}, (None, _) -> {none} }}"),
        3 => {
          if kind == Kind::MapS {
            format!("match (x, y) {{ (_, Some(q)) -> Option.Some(q), (_, None) -> {none} }}")
          } else {
            "Option.Some((D.oi(x, 7) * 3 + D.oi(y, 11) + k.value % 5) % 1000)".to_string()
          }
        }
        _ => format!("Option.Some(D.so(x, {sv}) :: \"/\" :: D.so(y, {sv}))"),
      };
      let e = format!("{a}.merge({b}, (k, x, y) -> {body})");
      if code <= 3 {
        store!(e)
      } else {
        pl!("A", &format!("D.stM({e}, D.ss)"))
      }
    }
    "map.update" => {
      let body = match code {
        0 => none.clone(),
        1 => format!("Option.Some({v})"),
        2 => format!("match o {{ None -> Option.Some({v}), Some(w) -> Option.Some({}) }}", upd_text(kind)),
        3 => "o".to_string(),
        _ => format!("match o {{ None -> {none}, Some(w) -> if {} {{ {none} }} else {{ Option.Some(w) }} }}", updp_text(kind)),
      };
      store!(format!("{a}.update({k}, (o) -> {body})"))
    }
    "map.customizedUnion" => {
      let body = match code {
        0 => "Option.Some(x)".to_string(),
        1 => "Option.Some(y)".to_string(),
        2 => none.clone(),
        3 => {
          if kind == Kind::MapS {
            format!("if k.value % 2 == 0 {{ Option.Some(x) }} else {{ {none} }}")
          } else {
            "Option.Some((x * 3 + y) % 1000)".to_string()
          }
        }
        _ => format!("if k.value % 2 == 0 {{ Option.Some(y) }} else {{ {none} }}"),
      };
      store!(format!("{a}.customizedUnion({b}, (k, x, y) -> {body})"))
    }
    "map.union" => store!(format!("{a}.union({b})")),
    "map.compare" => pl!("Q", &format!("D.sgn({a}.compare({b}, (x, y) -> {}))", vcmp_text(kind, code))),
    "map.equal" => {
      let f = match code {
        0 => "x == y",
        1 => "true",
        _ => "false",
      };
      pl!("Q", &format!("D.sb({a}.equal({b}, (x, y) -> {f}))"))
    }
    "map.iter" => out.push_str(&format!("    {a}.iter((k, v) -> Process.println(\"{n}:I \" :: D.sk(k) :: \"=\" :: {sv}(v)));\n")),
    "map.fold" => {
      if code == 0 {
        pl!("Q", &format!("{a}.fold(\"\", (acc, k, v) -> acc :: D.sk(k) :: \":\" :: {sv}(v) :: \";\")"))
      } else {
        pl!("Q", &format!("D.si({a}.fold({c}, (acc, k, v) -> (acc * 31 + k.value % 1000) % 100003))"))
      }
    }
    "map.forAll" => pl!("Q", &format!("D.sb({a}.forAll((k, v) -> {}))", mpred_text(kind, code, c))),
    "map.exists" => pl!("Q", &format!("D.sb({a}.exists((k, v) -> {}))", mpred_text(kind, code, c))),
    "map.filter" => store!(format!("{a}.filter((k, v) -> {})", mpred_text(kind, code, c))),
    "map.partition" => {
      out.push_str(&format!("    let (x{n}, z{n}) = {a}.partition((k, v) -> {});\n", mpred_text(kind, code, c)));
      let (keep, other) = if op.flag { (format!("x{n}"), format!("z{n}")) } else { (format!("z{n}"), format!("x{n}")) };
      pl!("A", &st(&other));
      store!(keep);
    }
    "map.size" => pl!("Q", &format!("D.si({a}.size())")),
    "map.entries" => pl!("Q", &format!("D.se({a}.entries(), {sv})")),
    "map.min" => pl!("Q", &format!("D.so({a}.min(), (p) -> D.sk(p.e0) :: \"=\" :: {sv}(p.e1))")),
    "map.max" => pl!("Q", &format!("D.so({a}.max(), (p) -> D.sk(p.e0) :: \"=\" :: {sv}(p.e1))")),
    "map.minKey" => pl!("Q", &format!("D.so({a}.minKey(), D.sk)")),
    "map.maxKey" => pl!("Q", &format!("D.so({a}.maxKey(), D.sk)")),
    "map.keys" => pl!("Q", &format!("D.sl({a}.keys(), D.sk)")),
    "map.map" => {
      if code <= 3 {
        store!(format!("{a}.map((k, v) -> {})", mg_text(kind, code)))
      } else if kind == Kind::MapS {
        pl!("A", &format!("D.stM({a}.map((k, v) -> k.value % 10), D.si)"))
      } else {
        pl!("A", &format!("D.stM({a}.map((k, v) -> Str.fromInt(v) :: \"s\"), D.ss)"))
      }
    }
    // ------------------------------------------------------------------ Set
    "set.empty" => store!("Set.empty<Int>()".to_string()),
    "set.singleton" => store!(format!("Set.singleton({k})")),
    "set.isEmpty" => pl!("Q", &format!("D.sb({a}.isEmpty())")),
    "set.contains" => pl!("Q", &format!("D.sb({a}.contains({k}))")),
    "set.insert" => store!(format!("{a}.insert({k})")),
    "set.remove" => store!(format!("{a}.remove({k})")),
    "set.split" => {
      out.push_str(&format!("    let (x{n}, y{n}, z{n}) = {a}.split({k});\n"));
      pl!("Q", &format!("D.sb(y{n})"));
      let (keep, other) = if op.flag { (format!("x{n}"), format!("z{n}")) } else { (format!("z{n}"), format!("x{n}")) };
      pl!("A", &st(&other));
      store!(keep);
    }
    "set.union" => store!(format!("{a}.union({b})")),
    "set.intersection" => store!(format!("{a}.intersection({b})")),
    "set.diff" => store!(format!("{a}.diff({b})")),
    "set.disjoint" => pl!("Q", &format!("D.sb({a}.disjoint({b}))")),
    "set.subset" => pl!("Q", &format!("D.sb({a}.subset({b}))")),
    "set.fromList" => {
      if op.flag {
        store!(format!("Set.fromList({b}.elements().reverse())"))
      } else {
        let mut e = String::from("List.nil<Int>()");
        for x in &op.ks {
          e.push_str(&format!(".cons({})", klit(*x)));
        }
        store!(format!("Set.fromList({e})"))
      }
    }
    "set.compare" => {
      if code == 2 {
        // elements whose `compare` looks at the key only; `f` compares the tag (x % 3 against x % 2)
        pl!("Q", &format!("D.sgn(D.toE({a}, 3).compare(D.toE({b}, 2), (p, q) -> p.tag - q.tag))"))
      } else {
        let f = if code == 0 { "x.compare(y)" } else { "y.value - x.value" };
        pl!("Q", &format!("D.sgn({a}.compare({b}, (x, y) -> {f}))"))
      }
    }
    "set.equal" => {
      if code == 3 {
        pl!("Q", &format!("D.sb(D.toE({a}, 3).equal(D.toE({b}, 2), (p, q) -> p.tag == q.tag))"))
      } else {
        let f = match code {
          0 => "x.value == y.value",
          1 => "true",
          _ => "false",
        };
        pl!("Q", &format!("D.sb({a}.equal({b}, (x, y) -> {f}))"))
      }
    }
    "set.iter" => out.push_str(&format!("    {a}.iter((x) -> Process.println(\"{n}:I \" :: D.sk(x)));\n")),
    "set.fold" => {
      if code == 0 {
        pl!("Q", &format!("{a}.fold(\"\", (acc, x) -> acc :: D.sk(x) :: \";\")"))
      } else {
        pl!("Q", &format!("D.si({a}.fold({c}, (acc, x) -> (acc * 31 + x.value % 1000) % 100003))"))
      }
    }
    "set.forAll" => pl!("Q", &format!("D.sb({a}.forAll((x) -> {}))", ipred_text("x.value", code, c))),
    "set.exists" => pl!("Q", &format!("D.sb({a}.exists((x) -> {}))", ipred_text("x.value", code, c))),
    "set.filter" => store!(format!("{a}.filter((x) -> {})", ipred_text("x.value", code, c))),
    "set.partition" => {
      out.push_str(&format!("    let (x{n}, z{n}) = {a}.partition((x) -> {});\n", ipred_text("x.value", code, c)));
      let (keep, other) = if op.flag { (format!("x{n}"), format!("z{n}")) } else { (format!("z{n}"), format!("x{n}")) };
      pl!("A", &st(&other));
      store!(keep);
    }
    "set.size" => pl!("Q", &format!("D.si({a}.size())")),
    "set.min" => pl!("Q", &format!("D.so({a}.min(), D.sk)")),
    "set.max" => pl!("Q", &format!("D.so({a}.max(), D.sk)")),
    "set.elements" => pl!("Q", &format!("D.sl({a}.elements(), D.sk)")),
    "set.map" => store!(format!("{a}.map((x) -> {})", smap_text(code))),
    // ------------------------------------------------------------------ List
    "list.nil" => store!("List.nil<int>()".to_string()),
    "list.of" => store!(format!("List.of({})", op.k)),
    "list.cons" => store!(format!("{a}.cons({})", op.k)),
    "list.length" => pl!("Q", &format!("D.si({a}.length())")),
    "list.isEmpty" => pl!("Q", &format!("D.sb({a}.isEmpty())")),
    "list.first" => pl!("Q", &format!("D.so({a}.first(), D.si)")),
    "list.rest" => {
      out.push_str(&format!("    let o{n} = {a}.rest();\n"));
      pl!("Q", &format!("D.so(o{n}, (t) -> D.stL(t, D.si))"));
      store!(format!("match o{n} {{ None -> {a}, Some(u) -> u }}"));
    }
    "list.filter" => store!(format!("{a}.filter((x) -> {})", ipred_text("x", code, c))),
    "list.map" => {
      if code <= 3 {
        store!(format!("{a}.map((x) -> {})", lmap_text(code)))
      } else {
        pl!("A", &format!("D.stL({a}.map((x) -> Str.fromInt(x) :: \"s\"), D.ss)"))
      }
    }
    "list.filterMap" => {
      if code == 0 {
        store!(format!("{a}.filterMap((x) -> if x % 2 == 0 {{ Option.Some((x + 1) % 1000) }} else {{ Option.None<int>() }})"))
      } else {
        pl!("A", &format!("D.stL({a}.filterMap((x) -> if {c} > x {{ Option.Some(\"<\" :: Str.fromInt(x)) }} else {{ Option.None<Str>() }}), D.ss)"))
      }
    }
    "list.iter" => out.push_str(&format!("    {a}.iter((x) -> Process.println(\"{n}:I \" :: D.si(x)));\n")),
    "list.contains" => {
      let f = if code == 0 { "p == q" } else { "p % 10 == q % 10" };
      pl!("Q", &format!("D.sb({a}.contains({}, (p, q) -> {f}))", op.k))
    }
    "list.forAll" => pl!("Q", &format!("D.sb({a}.forAll((x) -> {}))", ipred_text("x", code, c))),
    "list.exists" => pl!("Q", &format!("D.sb({a}.exists((x) -> {}))", ipred_text("x", code, c))),
    "list.find" => pl!("Q", &format!("D.so({a}.find((x) -> {}), D.si)", ipred_text("x", code, c))),
    "list.findMap" => pl!(
      "Q",
      &format!("D.so({a}.findMap((x) -> if {} {{ Option.Some(\"f\" :: Str.fromInt(x)) }} else {{ Option.None<Str>() }}), D.ss)", ipred_text("x", code, c)),
    ),
    "list.append" => store!(format!("{a}.append({b})")),
    "list.reverseAndAppend" => store!(format!("{a}.reverseAndAppend({b})")),
    "list.fold" => {
      if code == 0 {
        pl!("Q", &format!("{a}.fold((acc, x) -> acc :: Str.fromInt(x) :: \";\", \"\")"))
      } else {
        pl!("Q", &format!("D.si({a}.fold((acc, x) -> (acc * 31 + x) % 100003, {c}))"))
      }
    }
    "list.foldRight" => {
      if code == 0 {
        pl!("Q", &format!("{a}.foldRight((x, acc) -> acc :: Str.fromInt(x) :: \";\", \"\")"))
      } else {
        pl!("Q", &format!("D.si({a}.foldRight((x, acc) -> (acc * 31 + x) % 100003, {c}))"))
      }
    }
    "list.bind" => match code {
      0 => store!(format!("{a}.bind((x) -> List.of(x).cons((x + 1) % 1000))")),
      1 => store!(format!("{a}.bind((x) -> if x % 2 == 0 {{ List.nil<int>() }} else {{ List.of(x) }})")),
      _ => pl!("A", &format!("D.stL({a}.bind((x) -> List.of(Str.fromInt(x))), D.ss)")),
    },
    "list.flatten" => {
      if op.flag {
        store!(format!("List.flatten(List.of({a}).cons({b}).cons({a}))"))
      } else {
        store!(format!("List.flatten(List.of({a}).cons({b}))"))
      }
    }
    "list.reverse" => store!(format!("{a}.reverse()")),
    other => panic!("emit: unknown op {other}"),
  }
}

fn emit_program(kind: Kind, ops: &[Op]) -> String {
  let mut s = String::from(PRELUDE);
  s.push_str("\nclass Main {\n  function main(): unit = {\n");
  let mut cur = [String::new(), String::new(), String::new()];
  for (i, c) in cur.iter_mut().enumerate() {
    *c = format!("r{i}i");
    s.push_str(&format!("    let r{i}i = {};\n", init_expr(kind)));
  }
  for (n, op) in ops.iter().enumerate() {
    emit_step(kind, n, op, &mut cur, &mut s);
  }
  s.push_str("    Process.println(\"END\");\n  }\n}\n");
  s
}

// ---------------------------------------------------------------------------------------------
// the reference model

fn init_regs(kind: Kind) -> Vec<Coll> {
  let e = match kind {
    Kind::MapI | Kind::MapS => Coll::M(BTreeMap::new()),
    Kind::Set => Coll::S(BTreeSet::new()),
    Kind::List => Coll::L(Vec::new()),
  };
  vec![e.clone(), e.clone(), e]
}

fn sb(b: bool) -> String {
  if b { "true".into() } else { "false".into() }
}
fn sgn(c: i64) -> String {
  if c < 0 { "neg".into() } else if c > 0 { "pos".into() } else { "zero".into() }
}
fn so<T>(o: Option<T>, f: impl Fn(T) -> String) -> String {
  match o {
    None => "None".into(),
    Some(v) => format!("Some({})", f(v)),
  }
}
fn sov(o: Option<&Val>) -> String {
  so(o, |v| v.show())
}
fn join_i(xs: impl Iterator<Item = i32>) -> String {
  xs.map(|x| x.to_string()).collect::<Vec<_>>().join(",")
}

/// expected lines (tag, text) of one step; mutates the destination register.
/// `selftest` deliberately breaks the model of map.insert and list.foldRight (C18_SELFTEST=1).
fn model_step(kind: Kind, regs: &mut [Coll], op: &Op, selftest: bool) -> Vec<(char, String)> {
  let mut out: Vec<(char, String)> = Vec::new();
  let (code, c, k) = (op.code, op.c, op.k);
  macro_rules! store {
    ($v:expr) => {{
      let v: Coll = $v;
      out.push(('S', v.render()));
      regs[op.d] = v;
    }};
  }
  macro_rules! q {
    ($s:expr) => {
      out.push(('Q', $s))
    };
  }
  match kind {
    Kind::MapI | Kind::MapS => {
      let a = regs[op.a].m().clone();
      let b = regs[op.b].m().clone();
      match op.name {
        "map.empty" => store!(Coll::M(BTreeMap::new())),
        "map.singleton" => store!(Coll::M(BTreeMap::from([(k, op.v.clone())]))),
        "map.isEmpty" => q!(sb(a.is_empty())),
        "map.get" => q!(sov(a.get(&k))),
        "map.containsKey" => q!(sb(a.contains_key(&k))),
        "map.insert" => {
          let mut m = a;
          if !(selftest && m.contains_key(&k)) {
            m.insert(k, op.v.clone());
          }
          store!(Coll::M(m))
        }
        "map.remove" => {
          let mut m = a;
          m.remove(&k);
          store!(Coll::M(m))
        }
        "map.split" => {
          q!(sov(a.get(&k)));
          let l: BTreeMap<i32, Val> = a.iter().filter(|(x, _)| **x < k).map(|(x, y)| (*x, y.clone())).collect();
          let r: BTreeMap<i32, Val> = a.iter().filter(|(x, _)| **x > k).map(|(x, y)| (*x, y.clone())).collect();
          let (keep, other) = if op.flag { (l, r) } else { (r, l) };
          out.push(('A', Coll::M(other).render()));
          store!(Coll::M(keep))
        }
        "map.merge" => {
          let keys: BTreeSet<i32> = a.keys().chain(b.keys()).copied().collect();
          let mut m = BTreeMap::new();
          for key in keys {
            let (x, y) = (a.get(&key), b.get(&key));
            let r: Option<Val> = match code {
              0 => x.or(y).cloned(),
              1 => if y.is_some() { x.cloned() } else { None },
              2 => if y.is_none() { x.cloned() } else { None },
              3 => {
                if kind == Kind::MapS {
                  y.cloned()
                } else {
                  Some(Val::I((x.map(|v| v.i()).unwrap_or(7) * 3 + y.map(|v| v.i()).unwrap_or(11) + key % 5) % 1000))
                }
              }
              _ => Some(Val::S(format!("{}/{}", sov(x), sov(y)))),
            };
            if let Some(r) = r {
              m.insert(key, r);
            }
          }
          if code <= 3 {
            store!(Coll::M(m))
          } else {
            out.push(('A', Coll::M(m).render()))
          }
        }
        "map.update" => {
          let mut m = a;
          let o = m.get(&k).cloned();
          let r: Option<Val> = match code {
            0 => None,
            1 => Some(op.v.clone()),
            2 => Some(match &o {
              None => op.v.clone(),
              Some(w) => upd_eval(w),
            }),
            3 => o.clone(),
            _ => match &o {
              None => None,
              Some(w) => if updp_eval(w) { None } else { Some(w.clone()) },
            },
          };
          match r {
            Some(v) => {
              m.insert(k, v);
            }
            None => {
              m.remove(&k);
            }
          }
          store!(Coll::M(m))
        }
        "map.customizedUnion" | "map.union" => {
          let code = if op.name == "map.union" { 0 } else { code };
          let keys: BTreeSet<i32> = a.keys().chain(b.keys()).copied().collect();
          let mut m = BTreeMap::new();
          for key in keys {
            let r: Option<Val> = match (a.get(&key), b.get(&key)) {
              (Some(x), None) => Some(x.clone()),
              (None, Some(y)) => Some(y.clone()),
              (Some(x), Some(y)) => match code {
                0 => Some(x.clone()),
                1 => Some(y.clone()),
                2 => None,
                3 => {
                  if kind == Kind::MapS {
                    if key % 2 == 0 { Some(x.clone()) } else { None }
                  } else {
                    Some(Val::I((x.i() * 3 + y.i()) % 1000))
                  }
                }
                _ => if key % 2 == 0 { Some(y.clone()) } else { None },
              },
              (None, None) => None,
            };
            if let Some(r) = r {
              m.insert(key, r);
            }
          }
          store!(Coll::M(m))
        }
        "map.compare" => {
          // lexicographic over ascending (key, value) sequences; a proper prefix is smaller
          let (mut ia, mut ib) = (a.iter(), b.iter());
          let r: i64 = loop {
            match (ia.next(), ib.next()) {
              (None, None) => break 0,
              (None, Some(_)) => break -1,
              (Some(_), None) => break 1,
              (Some((k1, v1)), Some((k2, v2))) => {
                if k1 != k2 {
                  break (*k1 as i64) - (*k2 as i64);
                }
                let c1 = vcmp_eval(code, v1, v2);
                if c1 != 0 {
                  break c1 as i64;
                }
              }
            }
          };
          q!(sgn(r))
        }
        "map.equal" => {
          let r = a.len() == b.len()
            && a.iter().zip(b.iter()).all(|((k1, v1), (k2, v2))| {
              k1 == k2
                && match code {
                  0 => v1 == v2,
                  1 => true,
                  _ => false,
                }
            });
          q!(sb(r))
        }
        "map.iter" => {
          for (x, y) in &a {
            out.push(('I', format!("{x}={}", y.show())));
          }
        }
        "map.fold" => {
          if code == 0 {
            q!(a.iter().map(|(x, y)| format!("{x}:{};", y.show())).collect::<String>())
          } else {
            q!(a.keys().fold(c, |acc, x| hash_step(acc, x % 1000)).to_string())
          }
        }
        "map.forAll" => q!(sb(a.iter().all(|(x, y)| mpred_eval(code, c, *x, y)))),
        "map.exists" => q!(sb(a.iter().any(|(x, y)| mpred_eval(code, c, *x, y)))),
        "map.filter" => store!(Coll::M(a.into_iter().filter(|(x, y)| mpred_eval(code, c, *x, y)).collect())),
        "map.partition" => {
          let (t, f): (BTreeMap<i32, Val>, BTreeMap<i32, Val>) = a.into_iter().partition(|(x, y)| mpred_eval(code, c, *x, y));
          let (keep, other) = if op.flag { (t, f) } else { (f, t) };
          out.push(('A', Coll::M(other).render()));
          store!(Coll::M(keep))
        }
        "map.size" => q!(a.len().to_string()),
        "map.entries" => q!(a.iter().map(|(x, y)| format!("{x}={}", y.show())).collect::<Vec<_>>().join(",")),
        "map.min" => q!(so(a.iter().next(), |(x, y)| format!("{x}={}", y.show()))),
        "map.max" => q!(so(a.iter().next_back(), |(x, y)| format!("{x}={}", y.show()))),
        "map.minKey" => q!(so(a.keys().next(), |x| x.to_string())),
        "map.maxKey" => q!(so(a.keys().next_back(), |x| x.to_string())),
        "map.keys" => q!(join_i(a.keys().copied())),
        "map.map" => {
          if code <= 3 {
            store!(Coll::M(a.iter().map(|(x, y)| (*x, mg_eval(code, *x, y))).collect()))
          } else if kind == Kind::MapS {
            out.push(('A', Coll::M(a.keys().map(|x| (*x, Val::I(x % 10))).collect()).render()))
          } else {
            out.push(('A', Coll::M(a.iter().map(|(x, y)| (*x, Val::S(format!("{}s", y.i())))).collect()).render()))
          }
        }
        other => panic!("model: unknown map op {other}"),
      }
    }
    Kind::Set => {
      let a = regs[op.a].s().clone();
      let b = regs[op.b].s().clone();
      match op.name {
        "set.empty" => store!(Coll::S(BTreeSet::new())),
        "set.singleton" => store!(Coll::S(BTreeSet::from([k]))),
        "set.isEmpty" => q!(sb(a.is_empty())),
        "set.contains" => q!(sb(a.contains(&k))),
        "set.insert" => {
          let mut m = a;
          m.insert(k);
          store!(Coll::S(m))
        }
        "set.remove" => {
          let mut m = a;
          m.remove(&k);
          store!(Coll::S(m))
        }
        "set.split" => {
          q!(sb(a.contains(&k)));
          let l: BTreeSet<i32> = a.iter().copied().filter(|x| *x < k).collect();
          let r: BTreeSet<i32> = a.iter().copied().filter(|x| *x > k).collect();
          let (keep, other) = if op.flag { (l, r) } else { (r, l) };
          out.push(('A', Coll::S(other).render()));
          store!(Coll::S(keep))
        }
        "set.union" => store!(Coll::S(a.union(&b).copied().collect())),
        "set.intersection" => store!(Coll::S(a.intersection(&b).copied().collect())),
        "set.diff" => store!(Coll::S(a.difference(&b).copied().collect())),
        "set.disjoint" => q!(sb(a.is_disjoint(&b))),
        "set.subset" => q!(sb(a.is_subset(&b))),
        "set.fromList" => {
          if op.flag {
            store!(Coll::S(b))
          } else {
            store!(Coll::S(op.ks.iter().copied().collect()))
          }
        }
        "set.compare" => {
          let (mut ia, mut ib) = (a.iter(), b.iter());
          let r: i64 = loop {
            match (ia.next(), ib.next()) {
              (None, None) => break 0,
              (None, Some(_)) => break -1,
              (Some(_), None) => break 1,
              (Some(x), Some(y)) => {
                if x != y {
                  break (*x as i64) - (*y as i64);
                }
                // code 2: elements equal by `compare` (same key) are ordered by f on their tags
                if code == 2 && x % 3 != x % 2 {
                  break (x % 3 - x % 2) as i64;
                }
              }
            }
          };
          q!(sgn(r))
        }
        "set.equal" => {
          let r = a.len() == b.len()
            && a.iter().zip(b.iter()).all(|(x, y)| {
              x == y
                && match code {
                  0 | 1 => true,
                  3 => x % 3 == x % 2,
                  _ => false,
                }
            });
          q!(sb(r))
        }
        "set.iter" => {
          for x in &a {
            out.push(('I', x.to_string()));
          }
        }
        "set.fold" => {
          if code == 0 {
            q!(a.iter().map(|x| format!("{x};")).collect::<String>())
          } else {
            q!(a.iter().fold(c, |acc, x| hash_step(acc, x % 1000)).to_string())
          }
        }
        "set.forAll" => q!(sb(a.iter().all(|x| ipred_eval(code, c, *x)))),
        "set.exists" => q!(sb(a.iter().any(|x| ipred_eval(code, c, *x)))),
        "set.filter" => store!(Coll::S(a.into_iter().filter(|x| ipred_eval(code, c, *x)).collect())),
        "set.partition" => {
          let (t, f): (BTreeSet<i32>, BTreeSet<i32>) = a.into_iter().partition(|x| ipred_eval(code, c, *x));
          let (keep, other) = if op.flag { (t, f) } else { (f, t) };
          out.push(('A', Coll::S(other).render()));
          store!(Coll::S(keep))
        }
        "set.size" => q!(a.len().to_string()),
        "set.min" => q!(so(a.iter().next(), |x| x.to_string())),
        "set.max" => q!(so(a.iter().next_back(), |x| x.to_string())),
        "set.elements" => q!(join_i(a.iter().copied())),
        "set.map" => store!(Coll::S(a.iter().map(|x| smap_eval(code, *x)).collect())),
        other => panic!("model: unknown set op {other}"),
      }
    }
    Kind::List => {
      let a = regs[op.a].l().clone();
      let b = regs[op.b].l().clone();
      let strs = |xs: Vec<String>| format!("{}|{}", xs.len(), xs.join(","));
      match op.name {
        "list.nil" => store!(Coll::L(vec![])),
        "list.of" => store!(Coll::L(vec![k])),
        "list.cons" => {
          let mut l = vec![k];
          l.extend(a);
          store!(Coll::L(l))
        }
        "list.length" => q!(a.len().to_string()),
        "list.isEmpty" => q!(sb(a.is_empty())),
        "list.first" => q!(so(a.first(), |x| x.to_string())),
        "list.rest" => {
          if a.is_empty() {
            q!("None".to_string());
            store!(Coll::L(a))
          } else {
            let r = Coll::L(a[1..].to_vec());
            q!(format!("Some({})", r.render()));
            store!(r)
          }
        }
        "list.filter" => store!(Coll::L(a.into_iter().filter(|x| ipred_eval(code, c, *x)).collect())),
        "list.map" => {
          if code <= 3 {
            store!(Coll::L(a.iter().map(|x| lmap_eval(code, *x)).collect()))
          } else {
            out.push(('A', strs(a.iter().map(|x| format!("{x}s")).collect())))
          }
        }
        "list.filterMap" => {
          if code == 0 {
            store!(Coll::L(a.iter().filter(|x| **x % 2 == 0).map(|x| (x + 1) % 1000).collect()))
          } else {
            out.push(('A', strs(a.iter().filter(|x| **x < c).map(|x| format!("<{x}")).collect())))
          }
        }
        "list.iter" => {
          for x in &a {
            out.push(('I', x.to_string()));
          }
        }
        "list.contains" => q!(sb(a.iter().any(|x| if code == 0 { *x == k } else { k % 10 == x % 10 }))),
        "list.forAll" => q!(sb(a.iter().all(|x| ipred_eval(code, c, *x)))),
        "list.exists" => q!(sb(a.iter().any(|x| ipred_eval(code, c, *x)))),
        "list.find" => q!(so(a.iter().find(|x| ipred_eval(code, c, **x)), |x| x.to_string())),
        "list.findMap" => q!(so(a.iter().find(|x| ipred_eval(code, c, **x)), |x| format!("f{x}"))),
        "list.append" => {
          let mut l = a;
          l.extend(b);
          store!(Coll::L(l))
        }
        "list.reverseAndAppend" => {
          let mut l: Vec<i32> = a.into_iter().rev().collect();
          l.extend(b);
          store!(Coll::L(l))
        }
        "list.fold" => {
          if code == 0 {
            q!(a.iter().map(|x| format!("{x};")).collect::<String>())
          } else {
            q!(a.iter().fold(c, |acc, x| hash_step(acc, *x)).to_string())
          }
        }
        "list.foldRight" => {
          if code == 0 {
            if selftest {
              q!(a.iter().map(|x| format!("{x};")).collect::<String>())
            } else {
              q!(a.iter().rev().map(|x| format!("{x};")).collect::<String>())
            }
          } else if selftest {
            q!(a.iter().fold(c, |acc, x| hash_step(acc, *x)).to_string())
          } else {
            q!(a.iter().rev().fold(c, |acc, x| hash_step(acc, *x)).to_string())
          }
        }
        "list.bind" => match code {
          0 => store!(Coll::L(a.iter().flat_map(|x| [(x + 1) % 1000, *x]).collect())),
          1 => store!(Coll::L(a.into_iter().filter(|x| x % 2 != 0).collect())),
          _ => out.push(('A', strs(a.iter().map(|x| x.to_string()).collect()))),
        },
        "list.flatten" => {
          // List.of(a).cons(b) = [b, a]; with flag .cons(a) = [a, b, a]
          let mut l = Vec::new();
          if op.flag {
            l.extend(a.iter().copied());
          }
          l.extend(b);
          l.extend(a);
          store!(Coll::L(l))
        }
        "list.reverse" => store!(Coll::L(a.into_iter().rev().collect())),
        other => panic!("model: unknown list op {other}"),
      }
    }
  }
  out
}

// ---------------------------------------------------------------------------------------------
// sequence generation (all randomness from the seed)

const KMAX: i32 = (1 << 30) - 1;

struct GenCfg {
  range: Range,
  pool: Vec<i32>,
}

fn make_pool(rng: &mut Rng, range: Range) -> Vec<i32> {
  match range {
    Range::Small => (0..8).collect(),
    Range::Wide => {
      let n = 16 + rng.below(49);
      let mut p: Vec<i32> = Vec::with_capacity(n + 6);
      for _ in 0..n {
        let x = match rng.below(10) {
          0..=5 => rng.range(-(KMAX as i64), KMAX as i64) as i32,
          6..=7 => rng.range(-300, 300) as i32,
          _ => {
            let base = rng.range(-(KMAX as i64) + 100, KMAX as i64 - 100) as i32;
            base + rng.range(-3, 3) as i32
          }
        };
        p.push(x);
      }
      p.extend([KMAX, -KMAX, 0, 1, -1, KMAX - 1]);
      p
    }
  }
}

fn keys_of(c: &Coll) -> Vec<i32> {
  match c {
    Coll::M(m) => m.keys().copied().collect(),
    Coll::S(m) => m.iter().copied().collect(),
    Coll::L(m) => m.clone(),
  }
}

fn gen_key(rng: &mut Rng, cfg: &GenCfg, present: &Coll) -> i32 {
  match cfg.range {
    Range::Small => rng.below(8) as i32,
    Range::Wide => {
      let r = rng.below(100);
      let ks = keys_of(present);
      if r < 40 && !ks.is_empty() {
        ks[rng.below(ks.len())]
      } else if r < 92 {
        *rng.pick(&cfg.pool)
      } else {
        rng.range(-(KMAX as i64), KMAX as i64) as i32
      }
    }
  }
}

fn gen_val(rng: &mut Rng, kind: Kind) -> Val {
  if kind == Kind::MapS { Val::S(rng.pick(STRS).to_string()) } else { Val::I(rng.range(-500, 500) as i32) }
}

fn pick_op(rng: &mut Rng, kind: Kind) -> &'static str {
  let ops = ops_of(kind);
  let total: u32 = ops.iter().map(|o| o.1).sum();
  let mut r = rng.below(total as usize) as u32;
  for (n, w) in ops {
    if r < *w {
      return n;
    }
    r -= w;
  }
  ops[0].0
}

fn gen_op(rng: &mut Rng, kind: Kind, cfg: &GenCfg, regs: &[Coll], forced: Option<&'static str>) -> Op {
  let name = forced.unwrap_or_else(|| pick_op(rng, kind));
  let a = rng.below(3);
  // destination: mostly in place, so that registers accumulate
  let d = if rng.chance(3, 4) { a } else { rng.below(3) };
  let b = rng.below(3);
  let mut op = Op { name, d, a, b, k: 0, v: Val::I(0), code: 0, c: 0, ks: vec![], flag: rng.bool() };
  if kind == Kind::List {
    op.k = match cfg.range {
      Range::Small => rng.below(8) as i32,
      Range::Wide => {
        let ks = &regs[a].l();
        if rng.chance(1, 3) && !ks.is_empty() { ks[rng.below(ks.len())] } else { rng.range(-999, 999) as i32 }
      }
    };
    op.c = match cfg.range {
      Range::Small => rng.below(9) as i32,
      Range::Wide => rng.range(-999, 999) as i32,
    };
  } else {
    op.k = gen_key(rng, cfg, &regs[a]);
    op.c = gen_key(rng, cfg, &regs[a]);
    op.v = gen_val(rng, kind);
  }
  op.code = match name {
    "map.merge" | "map.update" | "map.customizedUnion" | "map.map" | "list.map" => rng.below(5) as u8,
    "set.compare" => rng.below(3) as u8,
    "set.equal" => rng.below(4) as u8,
    "map.compare" | "map.fold" | "set.fold" | "list.fold" | "list.foldRight" | "list.contains" | "list.filterMap" => rng.below(2) as u8,
    "map.equal" | "list.bind" => rng.below(3) as u8,
    "set.map" => rng.below(4) as u8,
    _ => rng.below(6) as u8,
  };
  if name.ends_with(".fold") || name.ends_with(".foldRight") {
    op.c = rng.below(100) as i32;
  }
  if name == "set.fromList" {
    let n = rng.below(13);
    op.ks = (0..n).map(|_| gen_key(rng, cfg, &regs[a])).collect();
    op.flag = rng.chance(1, 4);
  }
  // comparisons against a slightly different copy are more interesting than against a random register
  if matches!(name, "map.compare" | "map.equal" | "set.compare" | "set.equal" | "set.subset") && rng.chance(1, 3) {
    op.b = op.a;
  }
  op
}

fn gen_seq(rng: &mut Rng, kind: Kind, range: Range, n_ops: usize) -> Vec<Op> {
  let cfg = GenCfg { range, pool: make_pool(rng, range) };
  let mut regs = init_regs(kind);
  let mut ops: Vec<Op> = Vec::with_capacity(n_ops);
  // optional burst of inserts (random, ascending or descending keys) to grow deep trees early
  let ins: &'static str = match kind {
    Kind::MapI | Kind::MapS => "map.insert",
    Kind::Set => "set.insert",
    Kind::List => "list.cons",
  };
  if rng.chance(2, 5) {
    let burst = (n_ops / 3).min(6 + rng.below(40));
    let mode = rng.below(3);
    let mut sorted = cfg.pool.clone();
    sorted.sort();
    sorted.dedup();
    if mode == 2 {
      sorted.reverse();
    }
    let reg = rng.below(3);
    for i in 0..burst {
      let mut op = gen_op(rng, kind, &cfg, &regs, Some(ins));
      if rng.chance(4, 5) {
        op.a = reg;
        op.d = reg;
      }
      if mode != 0 && kind != Kind::List {
        op.k = sorted[i % sorted.len()];
      }
      model_step(kind, &mut regs, &op, false);
      ops.push(op);
    }
  }
  while ops.len() < n_ops {
    let mut accepted = None;
    for _ in 0..6 {
      let op = gen_op(rng, kind, &cfg, &regs, None);
      let mut probe = regs.to_vec();
      model_step(kind, &mut probe, &op, false);
      if probe.iter().all(|r| r.len() <= 160) {
        accepted = Some((op, probe));
        break;
      }
    }
    let (op, probe) = accepted.unwrap_or_else(|| {
      let mut op = gen_op(rng, kind, &cfg, &regs, Some(ins));
      op.name = match kind {
        Kind::List => "list.nil",
        Kind::Set => "set.empty",
        _ => "map.empty",
      };
      let mut probe = regs.to_vec();
      model_step(kind, &mut probe, &op, false);
      (op, probe)
    });
    regs = probe;
    ops.push(op);
  }
  ops
}

// ---------------------------------------------------------------------------------------------
// executors

fn std_modules() -> &'static Vec<(String, String)> {
  static STD: OnceLock<Vec<(String, String)>> = OnceLock::new();
  STD.get_or_init(|| front::read_dir_modules("std"))
}

fn project(src: &str) -> Project {
  let mut p = Project::single("Drv", src);
  p.modules.extend(std_modules().iter().cloned());
  p
}

fn limits() -> Limits {
  Limits { max_steps: 3_000_000_000, max_depth: 20_000, max_lines: 400_000 }
}

thread_local! {
  static LAST_PANIC_AT: std::cell::RefCell<String> = const { std::cell::RefCell::new(String::new()) };
}

fn panic_text(e: Box<dyn std::any::Any + Send>) -> String {
  let msg = e.downcast_ref::<String>().cloned().or_else(|| e.downcast_ref::<&str>().map(|s| s.to_string())).unwrap_or_else(|| "<panic>".into());
  let at = LAST_PANIC_AT.with(|l| l.borrow().clone());
  format!("{msg} @ {at}")
}

/// reference interpreter on the checked AST; Err = the driver did not type check (harness bug)
fn run_ref(src: &str) -> Result<Trace, String> {
  let r = std::panic::catch_unwind(AssertUnwindSafe(|| {
    let mut heap = Heap::new();
    let p = project(src);
    let checked = front::check_project(&mut heap, &p);
    if checked.errors.has_errors() {
      return Err(format!("driver does not type check: {}", checked.errors.pretty_print_error_messages_no_frame_for_test(&heap)));
    }
    let entry = front::mod_ref(&mut heap, "Drv");
    let (t, _) = refint::run(&heap, &checked.checked, entry, &limits());
    Ok(t)
  }));
  match r {
    Ok(r) => r,
    Err(e) => Err(format!("front end / reference interpreter panicked: {}", panic_text(e))),
  }
}

fn compile(src: &str) -> Result<front::Compiled, String> {
  let p = project(src);
  match std::panic::catch_unwind(AssertUnwindSafe(|| front::compile_project(&p, "Drv"))) {
    Ok(r) => r,
    Err(e) => Err(format!("compiler panicked: {}", panic_text(e))),
  }
}

// ---------------------------------------------------------------------------------------------
// comparing a trace with the model

#[derive(Clone, Debug)]
struct Finding {
  sig: String,
  what: String,
  step: usize,
  exp: Vec<String>,
  act: Vec<String>,
}

#[derive(Default, Clone)]
struct SeqStats {
  steps_compared: u64,
  lines_compared: u64,
  op_counts: HashMap<&'static str, u64>,
  max_h: u32,
  same_height_inserts: u64,
  height_drop_removes: u64,
  root_rotations: u64,
  cut: bool,
  resyncs: u64,
}

/// split `N:...` lines by step; returns (per-step lines, saw END, stray lines)
fn group(trace: &Trace, n: usize) -> (Vec<Vec<String>>, bool, Vec<String>) {
  let mut steps: Vec<Vec<String>> = vec![Vec::new(); n];
  let mut ended = false;
  let mut stray = Vec::new();
  for l in &trace.lines {
    if l == "END" {
      ended = true;
      continue;
    }
    match l.split_once(':').and_then(|(p, rest)| p.parse::<usize>().ok().map(|i| (i, rest))) {
      Some((i, rest)) if i < n => steps[i].push(rest.to_string()),
      _ => stray.push(l.clone()),
    }
  }
  (steps, ended, stray)
}

/// `S 3|1=2|ok|h=2;1` -> (`S 3|1=2|ok`, Some((2, "1")))
fn strip_h(l: &str) -> (String, Option<(u32, String)>) {
  if l.starts_with("S ") || l.starts_with("A ") {
    if let Some(p) = l.rfind("|h=") {
      let tail = &l[p + 3..];
      if let Some((h, root)) = tail.split_once(';') {
        if let Ok(h) = h.parse::<u32>() {
          return (l[..p].to_string(), Some((h, root.to_string())));
        }
      }
    }
  }
  (l.to_string(), None)
}

/// parse an actual (stripped) `S ...` line back into a model value; None if it is not a sane state
fn parse_state(kind: Kind, l: &str) -> Option<Coll> {
  let body = l.strip_prefix("S ")?;
  let parts: Vec<&str> = body.split('|').collect();
  match kind {
    Kind::List => {
      if parts.len() != 2 {
        return None;
      }
      let n: usize = parts[0].parse().ok()?;
      let xs: Vec<i32> = if parts[1].is_empty() { vec![] } else { parts[1].split(',').map(|x| x.parse::<i32>()).collect::<Result<_, _>>().ok()? };
      if xs.len() != n { None } else { Some(Coll::L(xs)) }
    }
    Kind::Set => {
      if parts.len() != 3 || parts[2] != "ok" {
        return None;
      }
      let n: usize = parts[0].parse().ok()?;
      let xs: Vec<i32> = if parts[1].is_empty() { vec![] } else { parts[1].split(',').map(|x| x.parse::<i32>()).collect::<Result<_, _>>().ok()? };
      if xs.len() != n || !xs.windows(2).all(|w| w[0] < w[1]) {
        return None;
      }
      Some(Coll::S(xs.into_iter().collect()))
    }
    Kind::MapI | Kind::MapS => {
      if parts.len() != 3 || parts[2] != "ok" {
        return None;
      }
      let n: usize = parts[0].parse().ok()?;
      let mut ks = Vec::new();
      let mut m = BTreeMap::new();
      if !parts[1].is_empty() {
        for e in parts[1].split(',') {
          let (k, v) = e.split_once('=')?;
          let k: i32 = k.parse().ok()?;
          let v = if kind == Kind::MapS { Val::S(v.to_string()) } else { Val::I(v.parse().ok()?) };
          ks.push(k);
          m.insert(k, v);
        }
      }
      if ks.len() != n || !ks.windows(2).all(|w| w[0] < w[1]) {
        return None;
      }
      Some(Coll::M(m))
    }
  }
}

fn ending_name(e: &Ending) -> String {
  match e {
    Ending::Return => "return".into(),
    Ending::Panic(_) => "panic".into(),
    Ending::VecBounds => "vec-bounds".into(),
    Ending::StackExhausted => "stack-exhausted".into(),
    Ending::ArithTrap(_) => "arith-trap".into(),
    Ending::Fault { kind, .. } => format!("fault-{kind}"),
    Ending::NoArmMatched => "no-arm-matched".into(),
    Ending::StepLimit => "step-limit".into(),
    Ending::Harness(_) => "harness".into(),
  }
}

enum Checked {
  Done(Vec<Finding>),
  Inconclusive(String),
}

/// walk the trace step by step against the model.  A wrong query result does not stop the walk;
/// a wrong stored state re-synchronises the model with the printed state when that state is a
/// well-formed collection (so that one library defect does not mask later ones), otherwise the
/// rest of the sequence is not compared (`cut`).
fn check_trace(kind: Kind, ops: &[Op], trace: &Trace, selftest: bool, mut stats: Option<&mut SeqStats>) -> Checked {
  if matches!(trace.ending, Ending::StepLimit | Ending::Harness(_)) {
    return Checked::Inconclusive(format!("executor inconclusive: {:?}", trace.ending).chars().take(160).collect());
  }
  let (steps, ended, stray) = group(trace, ops.len());
  let mut findings = Vec::new();
  if let Some(s) = stray.first() {
    findings.push(Finding { sig: "driver:stray-line".into(), what: format!("unexpected output line `{s}`"), step: 0, exp: vec![], act: stray.clone() });
  }
  let mut regs = init_regs(kind);
  // per register facts read from the actual S lines: (height, size, root)
  let mut facts: Vec<(u32, usize, String)> = vec![(0, 0, "-".to_string()); 3];
  let coll = match kind {
    Kind::MapI | Kind::MapS => "entries",
    _ => "elements",
  };
  for (n, op) in ops.iter().enumerate() {
    let exp: Vec<String> = model_step(kind, &mut regs, op, selftest).into_iter().map(|(t, s)| format!("{t} {s}")).collect();
    let mut s_fact: Option<(u32, String)> = None;
    let act: Vec<String> = steps[n]
      .iter()
      .map(|l| {
        let (s, f) = strip_h(l);
        if l.starts_with("S ") {
          s_fact = f;
        }
        s
      })
      .collect();
    // the program stopped inside this step: some expected line is missing and nothing follows
    // (a complete but different step is an ordinary mismatch; the stop is then blamed on the next step)
    let aborted_here = !ended && act.len() < exp.len() && steps[n + 1..].iter().all(|s| s.is_empty());
    if aborted_here {
      let (class, detail) = match &trace.ending {
        Ending::Panic(m) => ("panic".to_string(), format!("Process.panic(\"{m}\")")),
        other => (format!("abnormal-ending-{}", ending_name(other)), format!("{other:?}")),
      };
      findings.push(Finding {
        sig: format!("{}:{class}", op.name),
        what: format!("step {n} `{}`: the program stopped with {detail}; expected `{}`", op.show(), exp.join(" / ")),
        step: n,
        exp,
        act,
      });
      if let Some(st) = stats.as_deref_mut() {
        st.cut = true;
      }
      return Checked::Done(findings);
    }
    if let Some(st) = stats.as_deref_mut() {
      st.steps_compared += 1;
      st.lines_compared += exp.len().max(act.len()) as u64;
      *st.op_counts.entry(op.name).or_insert(0) += 1;
    }
    let stored = exp.iter().any(|l| l.starts_with("S "));
    if act != exp {
      let i = (0..exp.len().max(act.len())).find(|i| exp.get(*i) != act.get(*i)).unwrap_or(0);
      let tag = exp.get(i).or(act.get(i)).and_then(|l| l.chars().next()).unwrap_or('?');
      let bad = act.get(i).map(|l| l.contains("|BAD")).unwrap_or(false);
      let sig = match tag {
        'S' | 'A' if bad => format!("avl-shape:{}", op.name),
        'S' | 'A' => format!("{}:wrong-{coll}", op.name),
        'I' => format!("{}:wrong-iteration", op.name),
        _ => format!("{}:wrong-result", op.name),
      };
      findings.push(Finding {
        sig,
        what: format!(
          "step {n} `{}`: expected `{}` but the library printed `{}`",
          op.show(),
          exp.get(i).map(|s| s.as_str()).unwrap_or("<no line>"),
          act.get(i).map(|s| s.as_str()).unwrap_or("<no line>")
        ),
        step: n,
        exp: exp.clone(),
        act: act.clone(),
      });
      if stored {
        match act.iter().find(|l| l.starts_with("S ")).and_then(|l| parse_state(kind, l)) {
          Some(c) => {
            regs[op.d] = c;
            if let Some(st) = stats.as_deref_mut() {
              st.resyncs += 1;
            }
          }
          None => {
            if let Some(st) = stats.as_deref_mut() {
              st.cut = true;
            }
            return Checked::Done(findings);
          }
        }
      }
    }
    if stored {
      let size = regs[op.d].len();
      if let Some((h, root)) = s_fact {
        let (ha, sa, ra) = facts[op.a].clone();
        if let Some(st) = stats.as_deref_mut() {
          st.max_h = st.max_h.max(h);
          match op.name {
            "map.insert" | "set.insert" => {
              if size == sa + 1 && h == ha {
                st.same_height_inserts += 1;
              }
              if size == sa + 1 && sa >= 3 && root != ra {
                st.root_rotations += 1;
              }
            }
            "map.remove" | "set.remove" => {
              if h < ha {
                st.height_drop_removes += 1;
              }
              if size + 1 == sa && root != ra && ra != op.k.to_string() {
                st.root_rotations += 1;
              }
            }
            _ => {}
          }
        }
        facts[op.d] = (h, size, root);
      } else {
        facts[op.d] = (0, size, "-".into());
      }
    }
  }
  if !ended {
    // every step matched but the program did not reach END
    match &trace.ending {
      Ending::Return => {}
      other => findings.push(Finding {
        sig: format!("driver:abnormal-ending-{}", ending_name(other)),
        what: format!("all steps matched but the run ended with {other:?}"),
        step: ops.len().saturating_sub(1),
        exp: vec!["END".into()],
        act: vec![],
      }),
    }
  }
  Checked::Done(findings)
}

/// first step at which a backend's output differs from the reference interpreter's (raw lines,
/// heights included) or a different ending
fn backend_diff(backend: &str, ops: &[Op], r: &Trace, t: &Trace) -> Option<Finding> {
  if r.lines == t.lines && r.ending == t.ending {
    return None;
  }
  let (rs, _, _) = group(r, ops.len());
  let (ts, _, _) = group(t, ops.len());
  for n in 0..ops.len() {
    if rs[n] != ts[n] {
      let i = (0..rs[n].len().max(ts[n].len())).find(|i| rs[n].get(*i) != ts[n].get(*i)).unwrap_or(0);
      return Some(Finding {
        sig: format!("backend-disagrees:{backend}:{}", ops[n].name),
        what: format!(
          "step {n} `{}`: reference interpreter printed `{}` but {backend} printed `{}` (endings: ref {:?}, {backend} {:?})",
          ops[n].show(),
          rs[n].get(i).map(|s| s.as_str()).unwrap_or("<no line>"),
          ts[n].get(i).map(|s| s.as_str()).unwrap_or("<no line>"),
          r.ending,
          t.ending
        ),
        step: n,
        exp: rs[n].clone(),
        act: ts[n].clone(),
      });
    }
  }
  Some(Finding {
    sig: format!("backend-disagrees:{backend}:ending-{}", ending_name(&t.ending)),
    what: format!("same step lines but reference ended {:?} and {backend} ended {:?} ({} vs {} lines)", r.ending, t.ending, r.lines.len(), t.lines.len()),
    step: ops.len().saturating_sub(1),
    exp: vec![format!("{:?}", r.ending)],
    act: vec![format!("{:?}", t.ending)],
  })
}

// ---------------------------------------------------------------------------------------------
// minimisation and replay

#[derive(Clone, Copy, PartialEq, Eq, Debug)]
enum Exec {
  Ref,
  Wasm,
  Ts,
}

impl Exec {
  fn name(self) -> &'static str {
    match self {
      Exec::Ref => "ref",
      Exec::Wasm => "wasm",
      Exec::Ts => "ts",
    }
  }
}

fn run_exec(exec: Exec, src: &str) -> Result<Trace, String> {
  match exec {
    Exec::Ref => run_ref(src),
    Exec::Wasm => {
      let c = compile(src)?;
      Ok(wasmi::run(&c.wasm, &c.main_fn, &limits()).0)
    }
    Exec::Ts => {
      let c = compile(src)?;
      let js = tsrun::erase(&c.ts)?;
      Ok(tsrun::run_one(&js, &limits(), 30_000))
    }
  }
}

/// all findings of `ops` under `exec` (model findings; for backends also the diff against ref)
fn findings_of(kind: Kind, ops: &[Op], exec: Exec, selftest: bool) -> Vec<Finding> {
  let src = emit_program(kind, ops);
  let Ok(t) = run_exec(exec, &src) else { return vec![] };
  let mut fs = match check_trace(kind, ops, &t, selftest, None) {
    Checked::Done(f) => f,
    Checked::Inconclusive(_) => return vec![],
  };
  if exec != Exec::Ref {
    if let Ok(r) = run_ref(&src) {
      if let Some(f) = backend_diff(exec.name(), ops, &r, &t) {
        fs.push(f);
      }
    }
  }
  fs
}

/// delta-debug the op list (prefix up to the failing step) while the same signature reproduces
fn minimise(kind: Kind, ops: &[Op], f: &Finding, exec: Exec, selftest: bool) -> (Vec<Op>, Finding) {
  let prefix: Vec<Op> = ops[..=f.step.min(ops.len() - 1)].to_vec();
  let mut budget: usize = if exec == Exec::Ref { 150 } else { 40 };
  let sig = f.sig.clone();
  let min = ddmin_list(prefix, &mut |cand: &[Op]| !cand.is_empty() && findings_of(kind, cand, exec, selftest).iter().any(|x| x.sig == sig), &mut budget);
  let again = findings_of(kind, &min, exec, selftest).into_iter().find(|x| x.sig == sig);
  match again {
    Some(g) => (min, g),
    None => (ops[..=f.step.min(ops.len() - 1)].to_vec(), f.clone()),
  }
}

fn replay_text(kind: Kind, range: Range, seq: u64, exec: Exec, ops: &[Op], f: &Finding) -> String {
  let mut s = String::new();
  s.push_str(&format!("collection={} key-range={:?} sequence={} executor={}\nsignature={}\n{}\n", kind.name(), range, seq, exec.name(), f.sig, f.what));
  s.push_str(&format!("minimised op sequence ({} ops; registers r0..r2 start empty):\n", ops.len()));
  for (i, o) in ops.iter().enumerate() {
    s.push_str(&format!("  {i}: {}\n", o.show()));
  }
  s.push_str(&format!("expected lines of step {}:\n", f.step));
  for l in &f.exp {
    s.push_str(&format!("  {l}\n"));
  }
  s.push_str(&format!("actual lines of step {} (height suffix removed):\n", f.step));
  for l in &f.act {
    s.push_str(&format!("  {l}\n"));
  }
  s.push_str("--- driver program (module Drv; run with all of /repo/std) ---\n");
  s.push_str(&emit_program(kind, ops));
  s
}

// ---------------------------------------------------------------------------------------------
// the run

#[derive(Default)]
struct Acc {
  stats: SeqStats,
  seqs: u64,
  nt_hashes: HashSet<u64>,
  all_hashes: HashSet<u64>,
  per_range: BTreeMap<String, u64>,
  per_kind: BTreeMap<String, u64>,
  max_h_map: u32,
  max_h_set: u32,
  exec_counts: BTreeMap<String, u64>,
  lines_backend: u64,
  cut: u64,
  raw: HashMap<String, Vec<Raw>>,
  occurrences: BTreeMap<String, u64>,
  inconclusive: Vec<String>,
  harness_errors: Vec<String>,
  samples: Vec<serde_json::Value>,
  t_ref: f64,
  t_wasm: f64,
  t_compile: f64,
  t_ts: f64,
  t_min: f64,
}

struct Shared {
  compilable: Mutex<HashMap<(Kind, &'static str, u8), bool>>,
}

fn seq_params(seed: u64, k: u64, thorough: bool) -> (Rng, Kind, Range, usize) {
  let mut rng = Rng::new(seed.wrapping_mul(0x9E3779B97F4A7C15) ^ k.wrapping_mul(0xD1B54A32D192ED03).wrapping_add(0xC18));
  let kind = match k % 9 {
    0 | 1 | 2 => Kind::MapI,
    3 | 4 => Kind::MapS,
    5 | 6 | 7 => Kind::Set,
    _ => Kind::List,
  };
  let range = if (k / 9) % 2 == 0 { Range::Small } else { Range::Wide };
  let max = if thorough { 200 } else { 120 };
  let n_ops = 30 + rng.below(max - 30 + 1);
  (rng, kind, range, n_ops)
}

/// a finding waiting for the deterministic post-pass (the two lowest sequence numbers per
/// signature get minimised and written as replays)
struct Raw {
  k: u64,
  kind: Kind,
  range: Range,
  exec: Exec,
  ops: Vec<Op>,
  f: Finding,
}

fn report(acc: &mut Acc, _shared: &Shared, kind: Kind, range: Range, k: u64, exec: Exec, ops: &[Op], fs: Vec<Finding>, _selftest: bool) {
  for f in fs {
    *acc.occurrences.entry(f.sig.clone()).or_insert(0) += 1;
    let v = acc.raw.entry(f.sig.clone()).or_default();
    if v.len() < 2 {
      v.push(Raw { k, kind, range, exec, ops: ops.to_vec(), f });
    }
  }
}

/// minimise one recorded finding and render (signature, what, replay)
fn finalise(r: &Raw, selftest: bool) -> (String, String, String) {
  if r.f.sig.starts_with("backend:compile-failed") {
    let kind = r.kind;
    let mut budget = 120usize;
    let min = ddmin_list(r.ops.clone(), &mut |cand: &[Op]| !cand.is_empty() && compile(&emit_program(kind, cand)).is_err(), &mut budget);
    let mut replay = format!("collection={} sequence={}\n{}\nminimised op sequence ({} ops):\n", kind.name(), r.k, r.f.what, min.len());
    for (i, o) in min.iter().enumerate() {
      replay.push_str(&format!("  {i}: {}\n", o.show()));
    }
    replay.push_str("--- driver program (module Drv; run with all of /repo/std) ---\n");
    replay.push_str(&emit_program(kind, &min));
    return (r.f.sig.clone(), r.f.what.clone(), replay);
  }
  let (min, g) = if r.f.sig.starts_with("driver:") { (r.ops.clone(), r.f.clone()) } else { minimise(r.kind, &r.ops, &r.f, r.exec, selftest) };
  (g.sig.clone(), g.what.clone(), replay_text(r.kind, r.range, r.k, r.exec, &min, &g))
}

fn worker(t: u64, nthreads: u64, seed: u64, nseq: u64, backend_every: u64, thorough: bool, selftest: bool, shared: &Shared) -> Acc {
  let mut acc = Acc::default();
  // (k, kind, range, ops, js, ref trace) waiting for the batched node run
  let mut ts_queue: TsQueue = Vec::new();
  let flush_ts = |acc: &mut Acc, q: &mut TsQueue| {
    if q.is_empty() {
      return;
    }
    let t0 = Instant::now();
    let progs: Vec<String> = q.iter().map(|x| x.4.clone()).collect();
    let traces = tsrun::run_batch(&progs, &limits(), 30_000);
    acc.t_ts += t0.elapsed().as_secs_f64();
    for ((k, kind, range, ops, _, rt), tt) in q.drain(..).zip(traces) {
      match check_trace(kind, &ops, &tt, selftest, None) {
        Checked::Inconclusive(w) => acc.inconclusive.push(format!("ts: {w}")),
        Checked::Done(mut fs) => {
          *acc.exec_counts.entry("ts".into()).or_insert(0) += 1;
          acc.lines_backend += tt.lines.len() as u64;
          if let Some(f) = backend_diff("ts", &ops, &rt, &tt) {
            fs.push(f);
          }
          // model findings that the reference run already reported are not reported twice
          let fs: Vec<Finding> = fs.into_iter().filter(|f| f.sig.starts_with("backend-disagrees")).collect();
          report(acc, shared, kind, range, k, Exec::Ts, &ops, fs, selftest);
        }
      }
    }
  };
  let mut k = t;
  while k < nseq {
    let (mut rng, kind, range, n_ops) = seq_params(seed, k, thorough);
    let ops = gen_seq(&mut rng, kind, range, n_ops);
    let src = emit_program(kind, &ops);
    let h = hash_str(&ops.iter().map(|o| o.show()).collect::<Vec<_>>().join("\n"));
    acc.seqs += 1;
    acc.all_hashes.insert(h);
    *acc.per_range.entry(format!("{range:?}").to_lowercase()).or_insert(0) += 1;
    *acc.per_kind.entry(kind.name().to_string()).or_insert(0) += 1;
    let t0 = Instant::now();
    let rt = run_ref(&src);
    acc.t_ref += t0.elapsed().as_secs_f64();
    let rt = match rt {
      Ok(t) => t,
      Err(e) => {
        if acc.harness_errors.len() < 3 {
          acc.harness_errors.push(format!("sequence {k}: {}", e.chars().take(600).collect::<String>()));
        }
        k += nthreads;
        continue;
      }
    };
    let mut st = SeqStats::default();
    match check_trace(kind, &ops, &rt, selftest, Some(&mut st)) {
      Checked::Inconclusive(w) => acc.inconclusive.push(format!("ref: {w}")),
      Checked::Done(fs) => {
        *acc.exec_counts.entry("ref".into()).or_insert(0) += 1;
        if st.same_height_inserts + st.height_drop_removes > 0 {
          acc.nt_hashes.insert(h);
        }
        match kind {
          Kind::MapI | Kind::MapS => acc.max_h_map = acc.max_h_map.max(st.max_h),
          Kind::Set => acc.max_h_set = acc.max_h_set.max(st.max_h),
          Kind::List => {}
        }
        if st.cut {
          acc.cut += 1;
        }
        let s = &mut acc.stats;
        s.steps_compared += st.steps_compared;
        s.lines_compared += st.lines_compared;
        s.same_height_inserts += st.same_height_inserts;
        s.height_drop_removes += st.height_drop_removes;
        s.root_rotations += st.root_rotations;
        s.resyncs += st.resyncs;
        for (n, c) in &st.op_counts {
          *s.op_counts.entry(n).or_insert(0) += c;
        }
        if acc.samples.len() < 1 && k < 4 * nthreads {
          let n = 7.min(ops.len());
          let lines: Vec<&String> = rt.lines.iter().filter(|l| l.split_once(':').and_then(|(p, _)| p.parse::<usize>().ok()).map(|i| i < n).unwrap_or(false)).collect();
          acc.samples.push(json!({"collection": kind.name(), "key_range": format!("{range:?}"), "sequence": k, "first_ops": ops[..n].iter().map(|o| o.show()).collect::<Vec<_>>(), "printed_lines": lines}));
        }
        report(&mut acc, shared, kind, range, k, Exec::Ref, &ops, fs, selftest);
      }
    }
    if k % backend_every == 0 {
      let t0 = Instant::now();
      let c = compile(&src);
      acc.t_compile += t0.elapsed().as_secs_f64();
      match c {
        Err(e) => {
          // narrow signature: the panic location (or the first diagnostic line)
          let key: String = e.rsplit(" @ ").next().unwrap_or("").lines().next().unwrap_or("").chars().take(120).collect();
          let sig = format!("backend:compile-failed:{}", key.trim_start_matches("/repo/"));
          *acc.occurrences.entry(sig.clone()).or_insert(0) += 1;
          let v = acc.raw.entry(sig.clone()).or_default();
          if v.len() < 2 {
            let what = format!("a driver accepted by the type checker (and run by the reference interpreter) does not compile: {}", e.chars().take(300).collect::<String>());
            v.push(Raw { k, kind, range, exec: Exec::Wasm, ops: ops.clone(), f: Finding { sig, what, step: 0, exp: vec![], act: vec![] } });
          }
          // keep backend coverage of the other members: drop the operations whose one-step
          // driver does not compile on its own and try again
          let ops2: Vec<Op> = ops.iter().filter(|o| op_compiles(shared, kind, o)).cloned().collect();
          if ops2.len() < ops.len() && !ops2.is_empty() {
            let src2 = emit_program(kind, &ops2);
            if let (Ok(rt2), Ok(c2)) = (run_ref(&src2), compile(&src2)) {
              *acc.exec_counts.entry("backend_runs_with_uncompilable_ops_removed".into()).or_insert(0) += 1;
              backend_runs(&mut acc, shared, &mut ts_queue, kind, range, k, ops2, rt2, c2, selftest);
            }
          }
        }
        Ok(c) => {
          backend_runs(&mut acc, shared, &mut ts_queue, kind, range, k, ops.clone(), rt.clone(), c, selftest);
          if ts_queue.len() >= 12 {
            flush_ts(&mut acc, &mut ts_queue);
          }
        }
      }
    }
    k += nthreads;
  }
  flush_ts(&mut acc, &mut ts_queue);
  acc
}

type TsQueue = Vec<(u64, Kind, Range, Vec<Op>, String, Trace)>;

/// run the compiled program under the WasmGC interpreter now and queue its erased TypeScript
fn backend_runs(acc: &mut Acc, shared: &Shared, ts_queue: &mut TsQueue, kind: Kind, range: Range, k: u64, ops: Vec<Op>, rt: Trace, c: front::Compiled, selftest: bool) {
  let t0 = Instant::now();
  let (wt, _) = wasmi::run(&c.wasm, &c.main_fn, &limits());
  acc.t_wasm += t0.elapsed().as_secs_f64();
  match check_trace(kind, &ops, &wt, selftest, None) {
    Checked::Inconclusive(w) => acc.inconclusive.push(format!("wasm: {w}")),
    Checked::Done(mut fs) => {
      *acc.exec_counts.entry("wasm".into()).or_insert(0) += 1;
      acc.lines_backend += wt.lines.len() as u64;
      if let Some(f) = backend_diff("wasm", &ops, &rt, &wt) {
        fs.push(f);
      }
      // model findings that the reference run already reported are not reported twice
      let fs: Vec<Finding> = fs.into_iter().filter(|f| f.sig.starts_with("backend-disagrees")).collect();
      report(acc, shared, kind, range, k, Exec::Wasm, &ops, fs, selftest);
    }
  }
  match tsrun::erase(&c.ts) {
    Ok(js) => ts_queue.push((k, kind, range, ops, js, rt)),
    Err(e) => acc.inconclusive.push(format!("ts: erase failed: {}", e.chars().take(120).collect::<String>())),
  }
}

/// does a one-step driver with this operation compile? (cached per collection kind, member, closure code)
fn op_compiles(shared: &Shared, kind: Kind, op: &Op) -> bool {
  let key = (kind, op.name, op.code);
  if let Some(v) = shared.compilable.lock().unwrap_or_else(|e| e.into_inner()).get(&key) {
    return *v;
  }
  let ok = compile(&emit_program(kind, std::slice::from_ref(op))).is_ok();
  shared.compilable.lock().unwrap_or_else(|e| e.into_inner()).insert(key, ok);
  ok
}

fn main() {
  let args: Vec<String> = std::env::args().collect();
  let tier = args.get(1).cloned().unwrap_or_else(|| env_tier("quick"));
  let seed = env_seed();
  let selftest = std::env::var("C18_SELFTEST").map(|v| v == "1").unwrap_or(false);
  let mut run = Run::new("C18", &tier, seed, "exploration");
  std::panic::set_hook(Box::new(|info| {
    let loc = info.location().map(|l| format!("{}:{}", l.file(), l.line())).unwrap_or_default();
    LAST_PANIC_AT.with(|l| *l.borrow_mut() = loc);
  }));
  // debugging aid: `c18 run <ref|wasm|ts> <file.sam>` executes one driver file and prints its trace
  if args.len() == 4 && args[1] == "run" {
    let src = std::fs::read_to_string(&args[3]).expect("readable file");
    let exec = match args[2].as_str() {
      "wasm" => Exec::Wasm,
      "ts" => Exec::Ts,
      _ => Exec::Ref,
    };
    match run_exec(exec, &src) {
      Ok(t) => {
        print!("{}", t.stdout());
        println!("-- ending: {:?}", t.ending);
      }
      Err(e) => println!("-- error: {e}"),
    }
    return;
  }
  let thorough = tier == "thorough";
  let nseq: u64 = std::env::var("C18_NSEQ").ok().and_then(|v| v.parse().ok()).unwrap_or(if thorough { 6000 } else { 416 });
  let backend_every: u64 = if thorough { 4 } else { 13 };
  let nthreads = 16u64;
  let shared = Shared { compilable: Mutex::new(HashMap::new()) };
  let _ = std_modules();
  let accs: Vec<Acc> = std::thread::scope(|sc| {
    let shared = &shared;
    let hs: Vec<_> = (0..nthreads)
      .map(|t| {
        std::thread::Builder::new()
          .stack_size(256 << 20)
          .spawn_scoped(sc, move || worker(t, nthreads, seed, nseq, backend_every, thorough, selftest, shared))
          .expect("spawn worker")
      })
      .collect();
    hs.into_iter().map(|h| h.join().unwrap_or_default()).collect()
  });
  let mut total = Acc::default();
  let mut t_cpu = [0f64; 5];
  for a in accs {
    total.seqs += a.seqs;
    total.nt_hashes.extend(a.nt_hashes);
    total.all_hashes.extend(a.all_hashes);
    for (k, v) in a.per_range {
      *total.per_range.entry(k).or_insert(0) += v;
    }
    for (k, v) in a.per_kind {
      *total.per_kind.entry(k).or_insert(0) += v;
    }
    for (k, v) in a.exec_counts {
      *total.exec_counts.entry(k).or_insert(0) += v;
    }
    for (k, v) in a.occurrences {
      *total.occurrences.entry(k).or_insert(0) += v;
    }
    total.max_h_map = total.max_h_map.max(a.max_h_map);
    total.max_h_set = total.max_h_set.max(a.max_h_set);
    total.lines_backend += a.lines_backend;
    total.cut += a.cut;
    let s = &mut total.stats;
    s.steps_compared += a.stats.steps_compared;
    s.lines_compared += a.stats.lines_compared;
    s.same_height_inserts += a.stats.same_height_inserts;
    s.height_drop_removes += a.stats.height_drop_removes;
    s.root_rotations += a.stats.root_rotations;
    s.resyncs += a.stats.resyncs;
    for (n, c) in a.stats.op_counts {
      *s.op_counts.entry(n).or_insert(0) += c;
    }
    for (sig, v) in a.raw {
      total.raw.entry(sig).or_default().extend(v);
    }
    total.inconclusive.extend(a.inconclusive);
    total.harness_errors.extend(a.harness_errors);
    total.samples.extend(a.samples);
    for (i, v) in [a.t_ref, a.t_compile, a.t_wasm, a.t_ts, a.t_min].into_iter().enumerate() {
      t_cpu[i] += v;
    }
  }
  // deterministic post-pass: per signature the two occurrences with the lowest sequence number
  // are minimised (in parallel) and reported with a replay
  let mut jobs: Vec<Raw> = Vec::new();
  let mut sigs: Vec<String> = total.raw.keys().cloned().collect();
  sigs.sort();
  for sig in sigs {
    let mut v = total.raw.remove(&sig).unwrap_or_default();
    v.sort_by_key(|r| (r.k, r.exec.name()));
    jobs.extend(v.into_iter().take(2));
  }
  let t_min0 = Instant::now();
  let next = std::sync::atomic::AtomicUsize::new(0);
  let done: Mutex<Vec<(usize, (String, String, String))>> = Mutex::new(Vec::new());
  std::thread::scope(|sc| {
    for _ in 0..nthreads {
      let (jobs, next, done) = (&jobs, &next, &done);
      std::thread::Builder::new()
        .stack_size(256 << 20)
        .spawn_scoped(sc, move || {
          loop {
            let i = next.fetch_add(1, std::sync::atomic::Ordering::SeqCst);
            if i >= jobs.len() {
              break;
            }
            let r = finalise(&jobs[i], selftest);
            done.lock().unwrap_or_else(|e| e.into_inner()).push((i, r));
          }
        })
        .expect("spawn minimiser");
    }
  });
  t_cpu[4] = t_min0.elapsed().as_secs_f64();
  let mut done = done.into_inner().unwrap_or_else(|e| e.into_inner());
  done.sort_by_key(|d| d.0);
  for (_, (sig, what, replay)) in done {
    run.violation(sig, what, replay);
  }
  for w in total.inconclusive {
    run.inconclusive(&w);
  }
  run.harness_errors.extend(total.harness_errors.into_iter().take(3));
  for s in total.samples.into_iter().take(2) {
    run.sample(s);
  }
  run.evaluations = total.seqs;
  run.distinct_nontrivial = total.nt_hashes.len() as u64;
  run.rule = "one evaluation = one generated operation sequence (30..120 ops quick, 30..200 thorough) on three registers of one collection kind, executed by the reference interpreter and compared line by line with the Rust model; a sequence is non-trivial when the printed tree height stayed equal after an insert that increased the size or decreased after a remove (distinct by the hash of the op list); list sequences are never counted non-trivial".into();
  let all_ops: Vec<&str> = MAP_OPS.iter().chain(SET_OPS).chain(LIST_OPS).map(|o| o.0).collect();
  let per_op: BTreeMap<&str, u64> = all_ops.iter().map(|n| (*n, total.stats.op_counts.get(n).copied().unwrap_or(0))).collect();
  let never: Vec<&&str> = all_ops.iter().filter(|n| per_op[**n] == 0).collect();
  if !never.is_empty() && nseq >= 100 {
    run.harness_errors.push(format!("public members never exercised: {never:?}"));
  }
  run.cov("ops_executed", json!(total.stats.steps_compared));
  run.cov("per_operation_counts", json!(per_op));
  run.cov("public_members_covered", json!(format!("{} of {}", all_ops.len() - never.len(), all_ops.len())));
  run.cov("sequences_per_key_range", json!(total.per_range));
  run.cov("sequences_per_collection", json!(total.per_kind));
  run.cov("distinct_sequences", json!(total.all_hashes.len()));
  run.cov("max_height_seen", json!({"map": total.max_h_map, "set": total.max_h_set}));
  run.cov("lines_compared", json!({"ref_vs_model": total.stats.lines_compared, "backend_lines_vs_model_and_ref": total.lines_backend}));
  run.cov("executor_counts", json!(total.exec_counts));
  run.cov(
    "rebalancing_observations",
    json!({"inserts_growing_size_at_equal_height": total.stats.same_height_inserts, "removes_lowering_height": total.stats.height_drop_removes, "root_rotations": total.stats.root_rotations}),
  );
  run.cov("sequences_cut_short_after_unrecoverable_divergence_or_panic", json!(total.cut));
  run.cov("model_resynchronisations_after_wrong_state", json!(total.stats.resyncs));
  run.cov("violation_occurrences_by_signature", json!(total.occurrences));
  run.cov("cpu_seconds", json!({"reference_interpreter": t_cpu[0], "compile": t_cpu[1], "wasm_interpreter": t_cpu[2], "node_batches": t_cpu[3], "minimisation_wall": t_cpu[4]}));
  run.cov("selftest_mode", json!(selftest));
  run.assumptions = vec![
    "keys satisfy |k| < 2^30 so that std.boxed.Int.compare (a subtraction) cannot overflow; values stay below 1000 in magnitude".into(),
    "the reference interpreter decides `==` on heap objects by identity (std.map/std.set only use it as a sharing shortcut)".into(),
    "tree height and root key are printed for coverage but excluded from the comparison; the AVL check (stored heights, |hl-hr| <= 2, in-order ascending, count == size()) is part of the comparison".into(),
    "after a wrong stored result the model adopts the printed state when it is a well-formed collection, so later steps are still judged against the mathematical meaning".into(),
    "compiled executions are compared with the model and, line by line including heights, with the reference interpreter's run of the same program".into(),
  ];
  std::process::exit(run.finish());
}
