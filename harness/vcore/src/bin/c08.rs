//! C08 — formatting a file never changes the program it denotes.
//! Oracle: canon(parse(format(x))) == canon(parse(x)) and format(x) parses, for every x that
//! parses without syntax errors; culprit localisation by per-expression print→reparse round trips.
use serde_json::json;
use std::collections::{BTreeMap, BTreeSet};
use std::time::Duration;
use vcore::corpus::Corpus;
use vcore::evidence::{Run, env_seed, env_tier, hash_str};
use vcore::exprgen;
use vcore::fmtcheck;
use vcore::mutate;
use vcore::pool::{self, DriveOpts, WorkerCtx};
use vcore::rng::Rng;

const WIDTHS: &[usize] = &[100, 40, 1, 20, 80, 200];

struct Plan {
  decls: u64,
  triples: u64,
  randoms: u64,
  nest3: u64,
  opchains: u64,
  strings: u64,
  corpus: u64,
  mutants: u64,
  lsp: u64,
}

fn plan(tier: &str, corpus: &Corpus) -> Plan {
  let t = exprgen::triple_count() as u64;
  let nfiles = corpus.all().len() as u64;
  if tier == "thorough" {
    Plan { decls: 600_000, triples: t * 18, randoms: 4_000_000, nest3: exprgen::nest3_count() as u64 * 3, opchains: 6_000_000, strings: exprgen::string_literal_count(false) as u64, corpus: nfiles * WIDTHS.len() as u64, mutants: 1_500_000, lsp: nfiles }
  } else {
    Plan { decls: 30_000, triples: t * 2, randoms: 120_000, nest3: exprgen::nest3_count() as u64, opchains: 300_000, strings: exprgen::string_literal_count(false) as u64, corpus: nfiles * 2, mutants: 30_000, lsp: 12 }
  }
}

/// (generator, label, text, width)
fn gen_case(seed: u64, i: u64, p: &Plan, corpus: &Corpus) -> (String, String, String, usize) {
  let mut rng = Rng::new(seed ^ i.wrapping_mul(0x9E3779B97F4A7C15));
  let all = corpus.all();
  let mut k = i;
  if k < p.decls {
    let text = exprgen::random_module(&mut rng);
    return ("declarations".into(), format!("seeded module {k}"), text, *rng.pick(WIDTHS));
  }
  k -= p.decls;
  if k < p.triples {
    let t = (k % exprgen::triple_count() as u64) as usize;
    let round = (k / exprgen::triple_count() as u64) as usize;
    let (label, e) = exprgen::triple(t, &mut rng);
    let width = WIDTHS[(round + t) % WIDTHS.len()];
    return ("triple".into(), label, exprgen::wrap_in_module(&e, round / WIDTHS.len() + t), width);
  }
  k -= p.triples;
  if k < p.randoms {
    let d = 2 + rng.below(3);
    let (label, e) = exprgen::random_nested(&mut rng, d);
    let style = rng.below(3);
    return ("random-nesting".into(), label, exprgen::wrap_in_module(&e, style), *rng.pick(WIDTHS));
  }
  k -= p.randoms;
  if k < p.nest3 {
    let t = (k % exprgen::nest3_count() as u64) as usize;
    let round = (k / exprgen::nest3_count() as u64) as usize;
    let (label, e) = exprgen::nest3(t, &mut rng);
    return ("nest3".into(), label, exprgen::wrap_in_module(&e, round + t), WIDTHS[(round * 2 + t) % WIDTHS.len()]);
  }
  k -= p.nest3;
  if k < p.opchains {
    let d = 2 + rng.below(4);
    let (label, e) = exprgen::opchain(&mut rng, d);
    let style = rng.below(3);
    return ("operator-tree".into(), label, exprgen::wrap_in_module(&e, style), *rng.pick(WIDTHS));
  }
  k -= p.opchains;
  if k < p.strings {
    let lit = exprgen::string_literal(k as usize, false);
    let e = match k % 3 {
      0 => lit.clone(),
      1 => format!("{lit} :: x"),
      _ => format!("f({lit}, {lit})"),
    };
    return ("string-literal".into(), format!("literal {k}"), exprgen::wrap_in_module(&e, k as usize), WIDTHS[k as usize % WIDTHS.len()]);
  }
  k -= p.strings;
  if k < p.corpus {
    let f = all[(k % all.len() as u64) as usize];
    let w = WIDTHS[((k / all.len() as u64) as usize) % WIDTHS.len()];
    return ("corpus".into(), f.0.clone(), f.1.clone(), w);
  }
  k -= p.corpus;
  if k < p.mutants {
    let f = all[rng.below(all.len())];
    let n = 1 + rng.below(3);
    let (m, d) = if rng.chance(1, 4) { mutate::range_mutation(&f.1, &all[rng.below(all.len())].1, &mut rng) } else { mutate::token_mutation(&f.1, &mut rng, n) };
    return ("corpus-mutant".into(), format!("{}: {}", f.0, d), m, *rng.pick(WIDTHS));
  }
  k -= p.mutants;
  let f = all[(k % all.len() as u64) as usize];
  ("lsp-format".into(), f.0.clone(), f.1.clone(), 100)
}

fn total(p: &Plan) -> u64 {
  p.decls + p.triples + p.randoms + p.nest3 + p.opchains + p.strings + p.corpus + p.mutants + p.lsp
}

fn lsp_format(name: &str, text: &str) -> Result<Option<String>, String> {
  use samlang_services::server_state::ServerState;
  pool::catch(std::panic::AssertUnwindSafe(|| {
    let mut heap = samlang_heap::Heap::new();
    let m = vcore::front::mod_ref(&mut heap, name);
    let mut state = ServerState::new(heap, false, std::collections::HashMap::new());
    state.update(vec![(m, text.to_string())]);
    samlang_services::rewrite::format_entire_document(&state, &m)
  }))
}

fn worker(ctx: WorkerCtx) {
  let corpus = Corpus::load();
  let p = plan(&ctx.tier, &corpus);
  let n = total(&p);
  let mut i = ctx.only_case.unwrap_or(ctx.start_case);
  while i < n {
    if ctx.mine(i) {
      let (generator, label, text, width) = gen_case(ctx.seed, i, &p, &corpus);
      ctx.begin(i, &format!("{generator} {label} w={width}"));
      let mut v = json!({"t": "r", "case": i, "gen": generator, "label": label, "width": width, "hash": format!("{:016x}", hash_str(&text))});
      if generator == "lsp-format" {
        match lsp_format(&label, &text) {
          Ok(Some(out)) => {
            // the LSP route must satisfy the same property as the CLI route
            match fmtcheck::check_preserved(&text, 100) {
              Ok(Some(cli)) => {
                v["valid"] = json!(true);
                if cli != out {
                  v["fail"] = json!({"sig": "lsp-format-differs-from-cli-format", "what": "format_entire_document returned a different text than pretty_print_source_module at width 100", "input": text});
                }
              }
              Ok(None) => v["valid"] = json!(false),
              Err(f) => {
                v["valid"] = json!(true);
                v["fail"] = json!({"sig": f.signature, "what": f.what, "input": text});
              }
            }
          }
          Ok(None) => v["valid"] = json!(false),
          Err(e) => {
            v["valid"] = json!(true);
            v["fail"] = json!({"sig": format!("lsp-format-panic:{}", e.rsplit(" @ ").next().unwrap_or("")), "what": format!("format_entire_document panicked: {e}"), "input": text});
          }
        }
      } else {
        match fmtcheck::check_preserved(&text, width) {
          Ok(Some(out)) => {
            v["valid"] = json!(true);
            v["out_bytes"] = json!(out.len());
          }
          Ok(None) => v["valid"] = json!(false),
          Err(f) => {
            v["valid"] = json!(true);
            v["fail"] = json!({"sig": f.signature, "what": f.what, "input": text});
          }
        }
      }
      if i % 997 == 0 {
        v["sample"] = json!(text.chars().take(300).collect::<String>());
      }
      pool::emit(&v);
      ctx.end(i);
    }
    if ctx.only_case.is_some() {
      break;
    }
    i += 1;
  }
}

fn main() {
  let args: Vec<String> = std::env::args().collect();
  if let Some(ctx) = WorkerCtx::from_args(&args) {
    pool::install_hook();
    worker(ctx);
    return;
  }
  let tier = args.get(1).cloned().unwrap_or_else(|| env_tier("quick"));
  let seed = env_seed();
  if let Some(p) = args.iter().position(|a| a == "--replay") {
    let text = std::fs::read_to_string(&args[p + 1]).expect("replay file");
    let body: String = text.lines().filter(|l| !l.starts_with("# ")).collect::<Vec<_>>().join("\n");
    pool::install_hook();
    let mut bad = false;
    for w in WIDTHS {
      match fmtcheck::check_preserved(&body, *w) {
        Ok(Some(_)) => println!("width {w}: preserved"),
        Ok(None) => println!("width {w}: input has syntax errors"),
        Err(f) => {
          bad = true;
          println!("width {w}: {} — {}", f.signature, f.what);
        }
      }
    }
    std::process::exit(if bad { 1 } else { 0 });
  }
  let mut run = Run::new("C08", &tier, seed, "exploration");
  let thorough = tier == "thorough";
  let opts = DriveOpts {
    nshards: 16,
    tier: tier.clone(),
    seed,
    stall: Duration::from_secs(90),
    overall: Duration::from_secs(if thorough { 2400 } else { 600 }),
    extra: vec![],
    env: vec![("RAYON_NUM_THREADS".into(), "2".into())],
    max_deaths_per_shard: 50,
  };
  let (res, timed_out) = pool::drive(&opts);
  if timed_out {
    run.inconclusive("overall wall-clock cap reached before all cases ran");
  }
  let corpus = Corpus::load();
  let pl = plan(&tier, &corpus);
  let mut per_gen: BTreeMap<String, (u64, u64)> = BTreeMap::new();
  let mut triples_seen: BTreeSet<String> = BTreeSet::new();
  let mut modules_seen: BTreeSet<String> = BTreeSet::new();
  pool::install_hook();
  let mut minimised: BTreeSet<String> = BTreeSet::new();
  for v in &res.events {
    if v["t"].as_str() != Some("r") {
      continue;
    }
    run.evaluations += 1;
    let g = v["gen"].as_str().unwrap_or("").to_string();
    let e = per_gen.entry(g.clone()).or_insert((0, 0));
    e.0 += 1;
    if v["valid"].as_bool() == Some(true) {
      e.1 += 1;
      if g == "triple" || g == "nest3" {
        triples_seen.insert(v["label"].as_str().unwrap_or("").to_string());
      } else {
        modules_seen.insert(v["hash"].as_str().unwrap_or("").to_string());
      }
    }
    if let Some(f) = v.get("fail") {
      let sig = f["sig"].as_str().unwrap_or("").to_string();
      let input = f["input"].as_str().unwrap_or("").to_string();
      let width = v["width"].as_u64().unwrap_or(100) as usize;
      let replay = if minimised.insert(sig.clone()) {
        // delta-debug the first example of each signature (lines, then tokens)
        let want = sig.clone();
        let min = vcore::ddmin::minimise_modules(
          &[("M".to_string(), input.clone())],
          &mut |c| matches!(fmtcheck::check_preserved(&c[0].1, width), Err(ff) if ff.signature == want),
          1200,
        );
        format!("# width {width}\n# minimised input follows; original input after the marker line\n{}\n# ---- original ----\n# {}", min[0].1, input.replace('\n', "\n# "))
      } else {
        format!("# width {width}\n{input}")
      };
      run.violation(sig, format!("{} [{} {}]", f["what"].as_str().unwrap_or(""), g, v["label"].as_str().unwrap_or("")), replay);
    }
    if let Some(s) = v.get("sample") {
      run.sample(json!({"generator": g, "label": v["label"], "width": v["width"], "input_head": s}));
    }
  }
  for d in &res.deaths {
    let Some(case) = d.case else {
      run.harness_errors.push(format!("worker shard {} died outside any case: {}", d.shard, d.how));
      continue;
    };
    let (g, label, text, width) = gen_case(seed, case, &pl, &corpus);
    if d.hang {
      let (_, again) = pool::run_single(&opts, d.shard, case, Duration::from_secs(600));
      match again {
        Some(a) if a.hang => run.violation(format!("formatter-hang:{g}"), format!("no result after {} alone: {g} {label} width {width}", a.how), text),
        Some(a) => run.violation(format!("formatter-crash:{}", a.how), format!("worker died ({}) on {g} {label}", a.how), text),
        None => run.inconclusive("slow case finished when re-run alone"),
      }
    } else {
      run.violation(format!("formatter-crash:{}", d.how), format!("worker died ({}) on {g} {label} width {width}: {}", d.how, d.stderr_tail.lines().last().unwrap_or("")), text);
    }
  }
  run.distinct_nontrivial = (triples_seen.len() + modules_seen.len()) as u64;
  run.rule = "inputs: every (outer construct, operand position, inner construct, with/without explicit parentheses) triple from exprgen wrapped in a module, random nestings of depth 2-4, every systematic depth-3 nesting (outer, middle, inner, both parenthesisation flags), random fully parenthesised operator trees of depth 2-5 (binary / unary / member / call / if / lambda / tuple / match nodes), every string literal made of up to three atoms (escape sequences, quote, backslash, backtick, `$`, `{`, letters that follow a backslash, non-ASCII), every tests/*.sam and std/*.sam, token/range mutants of those that still parse, and the LSP format route; each at one of the widths {1,20,40,80,100,200}; non-trivial = distinct triple label or distinct module text that parses without syntax errors (inputs with syntax errors are outside the property and only counted)".into();
  run.cov("cases_per_generator_total_and_valid", json!(per_gen.iter().map(|(k, v)| (k.clone(), json!({"total": v.0, "syntactically_valid": v.1}))).collect::<BTreeMap<_, _>>()));
  run.cov("distinct_triples_exercised", json!(triples_seen.len()));
  run.cov("triple_space", json!(exprgen::triple_count()));
  run.cov("distinct_modules_exercised", json!(modules_seen.len()));
  run.cov("widths", json!(WIDTHS));
  run.assumptions = vec![
    "the canonical dump (astwalk::canon) contains every semantically relevant attribute of the syntax tree and nothing else; imports are compared as the sorted set of (module, member) pairs".into(),
    "explicit parentheses are not tree nodes (the parser returns the inner expression), so grouping is compared through the operator nesting itself".into(),
  ];
  std::process::exit(run.finish());
}
