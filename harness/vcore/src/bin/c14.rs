//! C14 — source positions attached to syntax are faithful to the text.
//! Monitor: a walker over the parsed and the checked syntax tree checks every location against
//! the text (inside the document, start <= end, enclosed by the parent, siblings disjoint, names
//! slice exactly their spelling); the same rules are applied to diagnostics and to the locations
//! returned by definition / references / folding ranges / rename-independent queries.
use samlang_ast::{Location, Position};
use serde_json::json;
use std::collections::{BTreeMap, BTreeSet};
use std::panic::AssertUnwindSafe;
use vcore::astwalk::{Node, Walker};
use vcore::corpus::Corpus;
use vcore::evidence::{Run, env_seed, env_tier};
use vcore::layout;
use vcore::pool;
use vcore::rng::Rng;

struct Doc<'a> {
  lines: Vec<&'a str>,
}

impl<'a> Doc<'a> {
  fn new(text: &'a str) -> Doc<'a> {
    Doc { lines: text.split('\n').collect() }
  }
  fn inside(&self, p: Position) -> bool {
    (p.0 as usize) < self.lines.len() && (p.1 as usize) <= self.lines[p.0 as usize].len()
  }
  fn slice(&self, l: &Location) -> Option<String> {
    if l.start.0 != l.end.0 || !self.inside(l.start) || !self.inside(l.end) || l.start.1 > l.end.1 {
      return None;
    }
    self.lines[l.start.0 as usize].get(l.start.1 as usize..l.end.1 as usize).map(|s| s.to_string())
  }
}

#[derive(Default)]
struct Findings {
  v: Vec<(String, String)>,
  nodes: u64,
  names: u64,
  kinds: BTreeSet<&'static str>,
}

fn fmt_loc(l: &Location) -> String {
  format!("{}:{}-{}:{}", l.start.0 + 1, l.start.1 + 1, l.end.0 + 1, l.end.1 + 1)
}

fn check_node(n: &Node, parent: Option<(&'static str, Location)>, doc: &Doc, f: &mut Findings, origin: &str) {
  f.nodes += 1;
  f.kinds.insert(n.kind);
  let mut here = parent;
  if let Some(l) = n.loc {
    if l.start > l.end {
      f.v.push((format!("start-after-end:{}", n.kind), format!("{origin}: {} `{}` has location {} with start after end", n.kind, n.attr, fmt_loc(&l))));
    }
    if !doc.inside(l.start) || !doc.inside(l.end) {
      f.v.push((format!("outside-document:{}", n.kind), format!("{origin}: {} `{}` has location {} outside the text ({} lines)", n.kind, n.attr, fmt_loc(&l), doc.lines.len())));
    }
    if let Some((pk, pl)) = parent {
      if !(pl.start <= l.start && l.end <= pl.end) {
        f.v.push((format!("not-enclosed:{pk}>{}", n.kind), format!("{origin}: {} at {} is not enclosed by its parent {pk} at {}", n.kind, fmt_loc(&l), fmt_loc(&pl))));
      }
    }
    if n.is_name {
      f.names += 1;
      match doc.slice(&l) {
        Some(s) if s == n.attr => {}
        other => f.v.push((format!("name-slice:{}", n.kind), format!("{origin}: {} `{}` has location {} which spells {:?}", n.kind, n.attr, fmt_loc(&l), other))),
      }
    }
    here = Some((n.kind, l));
  }
  // siblings with locations must be pairwise disjoint
  let mut sibs: Vec<(&'static str, Location)> = n.children.iter().filter_map(|c| c.loc.map(|l| (c.kind, l))).collect();
  sibs.sort_by_key(|s| (s.1.start, s.1.end));
  for w in sibs.windows(2) {
    if w[0].1.end > w[1].1.start && w[0].1 != w[1].1 {
      f.v.push((format!("siblings-overlap:{}:{}+{}", n.kind, w[0].0, w[1].0), format!("{origin}: inside {}, {} at {} overlaps {} at {}", n.kind, w[0].0, fmt_loc(&w[0].1), w[1].0, fmt_loc(&w[1].1))));
    }
  }
  for c in &n.children {
    check_node(c, here, doc, f, origin);
  }
}

fn check_text(name: &str, text: &str, others: &[(String, String)], f: &mut Findings, queries: &mut u64) {
  use samlang_services::query;
  let doc = Doc::new(text);
  let r = pool::catch(AssertUnwindSafe(|| {
    let mut srcs = vec![(name.to_string(), text.to_string())];
    srcs.extend(others.iter().cloned());
    let state = vcore::lsphist::new_state(&srcs);
    state
  }));
  let Ok(mut state) = r else {
    return;
  };
  let m = vcore::lsphist::mref(&mut state.heap, name);
  let errs = state.get_errors(&m);
  if errs.iter().any(|e| e.is_syntax_error()) {
    return; // outside the property (syntactically valid modules)
  }
  // parsed tree (through a fresh parse) and checked tree
  let mut heap = samlang_heap::Heap::new();
  let mut es = samlang_errors::ErrorSet::new();
  let mm = vcore::front::mod_ref(&mut heap, name);
  let parsed = samlang_parser::parse_source_module_from_text(text, mm, &mut heap, &mut es);
  let tree = Walker::new(&heap).module(&parsed);
  check_node(&tree, None, &doc, f, "parsed tree");
  // diagnostics
  for e in state.get_errors(&m) {
    let ide = e.to_ide_format(&state.heap, &state.string_sources);
    for (what, l) in std::iter::once(("diagnostic", ide.location)).chain(ide.reference_locs.iter().map(|l| ("diagnostic-reference", *l))) {
      if l.module_reference != m {
        continue;
      }
      if l.start > l.end {
        f.v.push((format!("start-after-end:{what}"), format!("{what} location {} has start after end", fmt_loc(&l))));
      }
      if !doc.inside(l.start) || !doc.inside(l.end) {
        f.v.push((format!("outside-document:{what}"), format!("{what} location {} is outside the text: {}", fmt_loc(&l), ide.ide_error.lines().next().unwrap_or(""))));
      }
    }
  }
  // query results at every name
  let mut names: Vec<(Location, String)> = Vec::new();
  fn collect(n: &Node, out: &mut Vec<(Location, String)>) {
    if n.is_name {
      if let Some(l) = n.loc {
        out.push((l, n.attr.clone()));
      }
    }
    for c in &n.children {
      collect(c, out);
    }
  }
  collect(&tree, &mut names);
  if let Some(rs) = query::folding_ranges(&state, &m) {
    for l in rs {
      *queries += 1;
      if l.start > l.end || !doc.inside(l.start) || !doc.inside(l.end) {
        f.v.push(("bad-range:folding".into(), format!("folding range {} is outside the text or inverted", fmt_loc(&l))));
      }
    }
  }
  for (l, name_text) in names.iter().take(400) {
    let p = Position(l.start.0, l.start.1);
    *queries += 2;
    if let Ok(Some(d)) = pool::catch(AssertUnwindSafe(|| query::definition_location(&state, &m, p))) {
      if d.module_reference == m && (d.start > d.end || !doc.inside(d.start) || !doc.inside(d.end)) {
        f.v.push(("bad-range:definition".into(), format!("definition of `{name_text}` at {} is {} (outside the text or inverted)", fmt_loc(l), fmt_loc(&d))));
      }
    }
    if name_text == "this" {
      continue; // the binding of `this` is implicit: the server answers with the enclosing class
    }
    if let Ok(refs) = pool::catch(AssertUnwindSafe(|| query::all_references(&state, &m, p))) {
      for r in refs {
        if r.module_reference != m {
          continue;
        }
        match doc.slice(&r) {
          Some(s) if s == *name_text => {}
          other => {
            f.v.push(("reference-spells-other-name".into(), format!("a reference of `{name_text}` (queried at {}) is {} which spells {:?}", fmt_loc(l), fmt_loc(&r), other)));
          }
        }
      }
    }
  }
}

fn main() {
  let args: Vec<String> = std::env::args().collect();
  let tier = args.get(1).cloned().unwrap_or_else(|| env_tier("quick"));
  let seed = env_seed();
  pool::install_hook();
  let mut run = Run::new("C14", &tier, seed, "exploration");
  let thorough = tier == "thorough";
  let corpus = Corpus::load();
  let ncases: u64 = if thorough { 60_000 } else { 2_400 };
  let nthreads = 16u64;
  let corpus_ref = &corpus;
  let results: Vec<_> = std::thread::scope(|sc| {
    let hs: Vec<_> = (0..nthreads)
      .map(|t| {
        sc.spawn(move || {
          let mut f = Findings::default();
          let mut queries = 0u64;
          let mut cases = 0u64;
          let mut pairs: BTreeSet<(String, String)> = BTreeSet::new();
          let mut found: BTreeMap<String, (String, String)> = BTreeMap::new();
          let mut sample = None;
          let all = corpus_ref.all();
          let mut k = t;
          while k < ncases {
            let mut rng = Rng::new(seed.wrapping_mul(0x9E3779B97F4A7C15) ^ k);
            let (name, base, others): (String, String, Vec<(String, String)>) = match k % 4 {
              0 | 1 => {
                let fl = all[(k / 4) as usize % all.len()];
                (fl.0.clone(), fl.1.clone(), corpus_ref.std.iter().filter(|s| s.0 != fl.0).cloned().collect())
              }
              2 if k % 8 == 2 => ("Zoo".into(), vcore::exprgen::binder_zoo(&mut rng), corpus_ref.std.iter().cloned().collect()),
              2 => ("Gen".into(), vcore::exprgen::random_module(&mut rng), vec![]),
              _ => {
                let pseed = seed.wrapping_mul(7919).wrapping_add(k);
                let g = vcore::pgen::generate(pseed, &vcore::pgen::GenConfig::default_for(pseed));
                let mut ms = g.project.modules.clone();
                let first = ms.remove(rng.below(ms.len()));
                let mut others = ms;
                others.extend(corpus_ref.std.iter().cloned());
                (first.0, first.1, others)
              }
            };
            let cfg = layout::random_cfg(&mut rng);
            let text = if k < all.len() as u64 * 4 && k % 4 == 0 { base.clone() } else { layout::relayout(&base, &mut rng, &cfg) };
            let before = f.v.len();
            let kinds_before = f.kinds.len();
            check_text(&name, &text, &others, &mut f, &mut queries);
            cases += 1;
            let _ = kinds_before;
            for feat in layout::features(&cfg) {
              for kd in f.kinds.iter() {
                pairs.insert((kd.to_string(), feat.to_string()));
              }
            }
            if sample.is_none() && text.len() < 500 {
              sample = Some(text.clone());
            }
            for (sig, what) in f.v.drain(before..).collect::<Vec<_>>() {
              found.entry(sig).or_insert((what, format!("# module {name} (layout {:?})\n{text}", cfg)));
            }
            k += nthreads;
          }
          (f.nodes, f.names, queries, cases, pairs, found, sample)
        })
      })
      .collect();
    hs.into_iter().map(|h| h.join().unwrap()).collect()
  });
  let (mut nodes, mut names, mut queries) = (0u64, 0u64, 0u64);
  let mut pairs: BTreeSet<(String, String)> = BTreeSet::new();
  for (n, nm, q, cases, p, found, sample) in results {
    nodes += n;
    names += nm;
    queries += q;
    run.evaluations += cases;
    pairs.extend(p);
    for (sig, (what, replay)) in found {
      run.violation(sig, what, replay);
    }
    if let Some(s) = sample {
      run.sample(json!(s));
    }
  }
  run.distinct_nontrivial = pairs.len() as u64;
  run.rule = "texts: every tests/*.sam and std/*.sam as written and under the layout randomiser (random spaces / tabs / CRLF / blank lines / very long lines, line, multi-line block and doc comments with multi-byte characters before names, multi-byte string literals), generated declaration modules and generator programs; non-trivial = distinct (syntax node kind, layout feature) pairs whose locations were checked".into();
  run.cov("syntax_nodes_checked", json!(nodes));
  run.cov("names_sliced_against_text", json!(names));
  run.cov("query_result_locations_checked", json!(queries));
  run.cov("node_kind_x_layout_feature_pairs", json!(pairs.len()));
  run.assumptions = vec![
    "columns are byte offsets within the line (the lexer's unit); lines are separated by \\n (a \\r before it belongs to the line)".into(),
    "sibling constructs are the direct children of one node in astwalk's tree; siblings with identical locations (shorthand field patterns) are one construct".into(),
  ];
  std::process::exit(run.finish());
}
