//! C17 — the string-interning heap is injective, stable, and never reclaims a live string.
//! Monitor: heapmon's shadow model + the cfg(samlang_verif) invariant walker over generated op
//! sequences (in-process, 16 threads), plus the same driver under Miri (and ASan/valgrind in
//! the thorough tier) for the unsafe pointer aliasing inside the heap.
use heapmon::{Profile, minimise, render_ops, run_seeded};
use serde_json::json;
use std::process::Command;
use vcore::evidence::{Run, env_seed, env_tier};

const HARNESS: &str = concat!(env!("CARGO_MANIFEST_DIR"), "/..");

fn miri_shard(seed: u64, shard: u64, nseq: u64, nops: u64, tree: bool) -> (bool, String, String) {
  let mut flags = String::from("-Zmiri-ignore-leaks");
  if tree {
    flags.push_str(" -Zmiri-tree-borrows");
  }
  let out = Command::new("cargo")
    .current_dir(HARNESS)
    .args(["+nightly", "miri", "run", "-q", "-p", "heapmon", "--offline", "--"])
    .arg((seed.wrapping_mul(977).wrapping_add(shard)).to_string())
    .arg(nseq.to_string())
    .arg(nops.to_string())
    .env("MIRIFLAGS", flags)
    .env("RUSTFLAGS", "--cfg samlang_verif")
    .env("CARGO_TARGET_DIR", format!("{HARNESS}/target/miri"))
    .output();
  match out {
    Ok(o) => (o.status.success(), String::from_utf8_lossy(&o.stdout).to_string(), String::from_utf8_lossy(&o.stderr).to_string()),
    Err(e) => (false, String::new(), format!("spawn failed: {e}")),
  }
}

fn main() {
  let args: Vec<String> = std::env::args().collect();
  let tier = args.get(1).cloned().unwrap_or_else(|| env_tier("quick"));
  let seed = env_seed();
  let mut run = Run::new("C17", &tier, seed, "exploration");
  std::panic::set_hook(Box::new(|_| {}));
  let thorough = tier == "thorough";
  let (nseq, nops_max): (u64, usize) = if thorough { (400_000, 900) } else { (24_000, 260) };
  let nthreads = 16u64;
  let results: Vec<_> = std::thread::scope(|sc| {
    let hs: Vec<_> = (0..nthreads)
      .map(|t| {
        sc.spawn(move || {
          let mut out = Vec::new();
          let mut agg = heapmon::SeqStats::default();
          let (mut nt, mut total) = (0u64, 0u64);
          let mut samples = Vec::new();
          let mut k = t;
          while k < nseq {
            let s = seed.wrapping_mul(0x9E3779B97F4A7C15).wrapping_add(k);
            let n_ops = 20 + (heapmon::rng::Rng::new(s).below(nops_max));
            let prof = Profile { n_ops, pool_limit: 4 + (k as usize % 14), check_invariants_every: if k % 5 == 0 { 1 } else { 13 } };
            let (ops, f, st) = run_seeded(s, &prof);
            total += 1;
            if st.realloc_after_reclaim > 0 {
              nt += 1;
            }
            agg.ops += st.ops;
            agg.reclaimed_observed += st.reclaimed_observed;
            agg.realloc_after_reclaim += st.realloc_after_reclaim;
            agg.effective_sweeps += st.effective_sweeps;
            agg.noop_sweeps += st.noop_sweeps;
            agg.wraps += st.wraps;
            agg.reads_ok += st.reads_ok;
            agg.reads_dead += st.reads_dead;
            agg.promotions += st.promotions;
            agg.compares += st.compares;
            agg.hook_calls += st.hook_calls;
            agg.max_slots = agg.max_slots.max(st.max_slots);
            agg.max_deallocated = agg.max_deallocated.max(st.max_deallocated);
            if samples.len() < 1 && st.realloc_after_reclaim > 0 && ops.len() < 60 {
              samples.push(render_ops(&ops));
            }
            if let Some(first) = f.first() {
              let min = minimise(&ops, &first.signature, 1);
              let (f2, _) = heapmon::run_ops(&min, 1);
              let what = f2.iter().find(|x| x.signature == first.signature).map(|x| x.what.clone()).unwrap_or(first.what.clone());
              out.push((first.signature.clone(), what, format!("seed={s} (sequence {k})\nminimised op sequence:\n{}", render_ops(&min))));
            }
            k += nthreads;
          }
          (out, agg, nt, total, samples)
        })
      })
      .collect();
    hs.into_iter().map(|h| h.join().unwrap()).collect()
  });
  let mut agg = heapmon::SeqStats::default();
  for (out, a, nt, total, samples) in results {
    for (sig, what, replay) in out {
      run.violation(sig, what, replay);
    }
    run.evaluations += total;
    run.distinct_nontrivial += nt;
    agg.ops += a.ops;
    agg.reclaimed_observed += a.reclaimed_observed;
    agg.realloc_after_reclaim += a.realloc_after_reclaim;
    agg.effective_sweeps += a.effective_sweeps;
    agg.noop_sweeps += a.noop_sweeps;
    agg.wraps += a.wraps;
    agg.reads_ok += a.reads_ok;
    agg.reads_dead += a.reads_dead;
    agg.promotions += a.promotions;
    agg.compares += a.compares;
    agg.hook_calls += a.hook_calls;
    agg.max_slots = agg.max_slots.max(a.max_slots);
    agg.max_deallocated = agg.max_deallocated.max(a.max_deallocated);
    for s in samples {
      run.sample(json!(s));
    }
  }
  run.rule = "op sequences generated from VERIF_SEED over a small string pool (inline 0/1/15-byte, 16/17-byte, multi-byte at the 15-byte boundary, long); a sequence is non-trivial when at least one string was observed reclaimed and the same string was allocated again later (distinct by seed)".into();
  run.cov("ops_executed", json!(agg.ops));
  run.cov("strings_observed_reclaimed", json!(agg.reclaimed_observed));
  run.cov("reallocations_after_reclaim", json!(agg.realloc_after_reclaim));
  run.cov("effective_sweeps", json!(agg.effective_sweeps));
  run.cov("noop_sweeps_blocked_by_unmarked_modules", json!(agg.noop_sweeps));
  run.cov("sweeps_wrapping_the_table", json!(agg.wraps));
  run.cov("readbacks_ok", json!(agg.reads_ok));
  run.cov("readbacks_of_dead_handles", json!(agg.reads_dead));
  run.cov("promotions_to_permanent", json!(agg.promotions));
  run.cov("handle_comparisons", json!(agg.compares));
  run.cov("invariant_hook_calls", json!(agg.hook_calls));
  run.cov("max_slots", json!(agg.max_slots));
  run.cov("max_deallocated_slots", json!(agg.max_deallocated));
  if agg.hook_calls == 0 {
    run.harness_errors.push("invariant hook never ran (harness built without --cfg samlang_verif?)".into());
  }

  // ---- Miri: undefined-behaviour interpreter over the same driver (the heap's unsafe aliasing)
  let (shards, mseq, mops): (u64, u64, u64) = if thorough { (32, 6, 120) } else { (16, 3, 90) };
  let models: &[bool] = if thorough { &[false, true] } else { &[false] };
  let mut miri_ok = 0u64;
  let mut miri_ops = 0u64;
  let mut miri_reclaimed = 0u64;
  for tree in models {
    let outs: Vec<_> = std::thread::scope(|sc| {
      let hs: Vec<_> = (0..shards).map(|sh| sc.spawn(move || miri_shard(seed, sh + if *tree { 1000 } else { 0 }, mseq, mops, *tree))).collect();
      hs.into_iter().map(|h| h.join().unwrap()).collect()
    });
    for (i, (ok, stdout, stderr)) in outs.into_iter().enumerate() {
      let summary = stdout.lines().find(|l| l.starts_with("SUMMARY")).unwrap_or("").to_string();
      let grab = |k: &str| summary.split_whitespace().find_map(|w| w.strip_prefix(k)).and_then(|v| v.parse::<u64>().ok()).unwrap_or(0);
      if ok && !summary.is_empty() {
        miri_ok += 1;
        miri_ops += grab("ops=");
        miri_reclaimed += grab("reclaimed_observed=");
      } else if stderr.contains("Undefined Behavior") || stderr.contains("error: unsupported operation") && stderr.contains("heap") {
        let first = stderr.lines().find(|l| l.contains("Undefined Behavior")).unwrap_or("").trim().to_string();
        let sig = format!("miri:{}", first.split(':').nth(2).unwrap_or(&first).trim().chars().take(80).collect::<String>());
        let tail: String = stderr.lines().rev().take(60).collect::<Vec<_>>().into_iter().rev().collect::<Vec<_>>().join("\n");
        run.violation(sig, first, format!("miri shard {i} tree_borrows={tree}\n{tail}"));
      } else if stdout.contains("FINDING") {
        let l = stdout.lines().find(|l| l.starts_with("FINDING")).unwrap_or("");
        let sig = l.split_whitespace().find_map(|w| w.strip_prefix("sig=")).unwrap_or("unknown").to_string();
        run.violation(sig, format!("under Miri: {l}"), stdout.clone());
      } else {
        run.inconclusive(&format!("miri shard did not complete: {}", stderr.lines().rev().find(|l| !l.trim().is_empty()).unwrap_or("").chars().take(120).collect::<String>()));
      }
    }
  }
  run.cov("miri_shards_clean", json!(miri_ok));
  run.cov("miri_ops_executed", json!(miri_ops));
  run.cov("miri_strings_reclaimed", json!(miri_reclaimed));
  run.cov("miri_borrow_models", json!(if thorough { vec!["stacked", "tree"] } else { vec!["stacked"] }));
  run.assumptions = vec![
    "the shadow model's must-be-live set (permanent, module-reference part, marked with <= 1 effective sweep call since, or never exposed to an effective sweep) is a sound under-approximation of liveness".into(),
    "liveness of a handle is probed with catch_unwind around PStr::as_str (the heap panics deliberately on a deallocated slot)".into(),
    "Miri runs with -Zmiri-ignore-leaks because the permanent generation leaks by design".into(),
  ];
  std::process::exit(run.finish());
}
