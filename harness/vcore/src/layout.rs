//! Layout randomiser: re-emits the token stream of a source text with hostile whitespace
//! (tabs, CRLF, blank lines, very long lines) and comments (multi-line block comments, multi-byte
//! characters) between tokens. Token order and token texts are unchanged.
use crate::rng::Rng;
use crate::toks::{self, TokKind};

#[derive(Clone, Copy, Debug)]
pub struct LayoutCfg {
  pub crlf: bool,
  pub tabs: bool,
  pub comments: u32,      // per-mille chance of a comment in a gap
  pub newline: u32,       // per-mille chance of a line break in a gap
  pub long_lines: bool,   // almost never break lines
  pub multibyte: bool,    // multi-byte characters in comments
}

pub fn random_cfg(rng: &mut Rng) -> LayoutCfg {
  LayoutCfg { crlf: rng.chance(1, 4), tabs: rng.chance(1, 3), comments: [0, 0, 40, 150][rng.below(4)], newline: [20, 120, 400][rng.below(3)], long_lines: rng.chance(1, 6), multibyte: rng.chance(1, 2) }
}

pub fn features(c: &LayoutCfg) -> Vec<&'static str> {
  let mut v = vec![];
  if c.crlf { v.push("crlf") }
  if c.tabs { v.push("tabs") }
  if c.comments > 0 { v.push("comments") }
  if c.long_lines { v.push("long-lines") }
  if c.multibyte && c.comments > 0 { v.push("multibyte-before-names") }
  if c.newline >= 400 { v.push("many-blank-lines") }
  v
}

pub fn relayout(text: &str, rng: &mut Rng, c: &LayoutCfg) -> String {
  let tokens: Vec<_> = toks::lex(text).into_iter().filter(|t| !t.is_comment()).collect();
  let nl = if c.crlf { "\r\n" } else { "\n" };
  let mut out = String::new();
  for (i, t) in tokens.iter().enumerate() {
    if i > 0 {
      // gap
      let mut gap = String::new();
      let breaks = if c.long_lines { rng.chance(1, 400) } else { rng.chance(c.newline, 1000) };
      if breaks {
        for _ in 0..1 + rng.below(3) {
          gap.push_str(nl);
        }
        for _ in 0..rng.below(6) {
          gap.push(if c.tabs && rng.bool() { '\t' } else { ' ' });
        }
      } else {
        for _ in 0..1 + rng.below(2) {
          gap.push(if c.tabs && rng.chance(1, 3) { '\t' } else { ' ' });
        }
      }
      if rng.chance(c.comments, 1000) {
        let body = if c.multibyte { "é 日本 € ß" } else { "plain" };
        match rng.below(4) {
          0 => gap.push_str(&format!("/* {body} */ ")),
          1 => gap.push_str(&format!("/* first line {body}{nl}   second line {body}{nl} */ ")),
          2 => gap.push_str(&format!("/** doc {body} */ ")),
          _ => gap.push_str(&format!("// line {body}{nl}")),
        }
      }
      out.push_str(&gap);
    }
    if t.kind == TokKind::Str && c.multibyte && t.text.len() > 2 && !t.text.contains('\\') && rng.chance(1, 3) {
      // multi-byte characters inside a string literal (changes the literal, not the structure)
      out.push_str(&format!("\"é€{}\"", &t.text[1..t.text.len() - 1]));
    } else {
      out.push_str(&t.text);
    }
  }
  out.push_str(nl);
  out
}
