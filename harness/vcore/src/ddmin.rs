//! Delta debugging over module sets: drop whole modules, then lines, then tokens, while a
//! predicate (same failure signature) keeps holding.
use crate::toks;

pub fn ddmin_list<T: Clone>(items: Vec<T>, test: &mut dyn FnMut(&[T]) -> bool, max_tests: &mut usize) -> Vec<T> {
  let mut cur = items;
  let mut chunk = (cur.len() / 2).max(1);
  loop {
    let mut i = 0;
    let mut progressed = false;
    while i < cur.len() && *max_tests > 0 {
      let end = (i + chunk).min(cur.len());
      let mut cand = cur.clone();
      cand.drain(i..end);
      *max_tests -= 1;
      if test(&cand) {
        cur = cand;
        progressed = true;
      } else {
        i += chunk;
      }
    }
    if *max_tests == 0 {
      break;
    }
    if !progressed {
      if chunk == 1 {
        break;
      }
      chunk = (chunk / 2).max(1);
    }
  }
  cur
}

fn render_tokens(t: &[toks::Tok]) -> String {
  let mut s = String::new();
  let mut line = u32::MAX;
  for x in t {
    if line != u32::MAX && x.line != line {
      s.push('\n');
    } else if !s.is_empty() {
      s.push(' ');
    }
    line = x.line;
    s.push_str(&x.text);
    if x.kind == toks::TokKind::LineComment {
      s.push('\n');
      line = u32::MAX - 1;
    }
  }
  s
}

/// minimise a module set; `pred` must return true iff the failure of interest still occurs
pub fn minimise_modules(mods: &[(String, String)], pred: &mut dyn FnMut(&[(String, String)]) -> bool, budget: usize) -> Vec<(String, String)> {
  let mut budget = budget;
  // 1. drop whole modules
  let mut cur = ddmin_list(mods.to_vec(), &mut |c| !c.is_empty() && pred(c), &mut budget);
  // 2. per module: top-level declarations, then members, then lines, then tokens
  for k in 0..cur.len() {
    for level in 0..2 {
      let parts = decl_chunks(&cur[k].1, level);
      if parts.len() < 2 {
        continue;
      }
      let base = cur.clone();
      let kept = ddmin_list(
        parts,
        &mut |c| {
          let mut m = base.clone();
          m[k].1 = c.join("\n");
          pred(&m)
        },
        &mut budget,
      );
      cur[k].1 = kept.join("\n");
    }
    let lines: Vec<String> = cur[k].1.split('\n').map(|s| s.to_string()).collect();
    let kept = {
      let base = cur.clone();
      ddmin_list(
        lines,
        &mut |c| {
          let mut m = base.clone();
          m[k].1 = c.join("\n");
          pred(&m)
        },
        &mut budget,
      )
    };
    cur[k].1 = kept.join("\n");
    let tokens = toks::lex(&cur[k].1);
    // only re-render through tokens if that preserves the failure
    let mut probe = cur.clone();
    probe[k].1 = render_tokens(&tokens);
    if budget > 0 && pred(&probe) {
      let base = cur.clone();
      let kept = ddmin_list(
        tokens,
        &mut |c| {
          let mut m = base.clone();
          m[k].1 = render_tokens(c);
          pred(&m)
        },
        &mut budget,
      );
      cur[k].1 = render_tokens(&kept);
    }
  }
  cur
}

/// split a module text into removable items: level 0 = imports and classes/interfaces,
/// level 1 = members (class headers and closing braces stay separate items)
pub fn decl_chunks(text: &str, level: usize) -> Vec<String> {
  let lines: Vec<&str> = text.split('\n').collect();
  let mut out: Vec<String> = Vec::new();
  let mut cur: Vec<&str> = Vec::new();
  let is_member = |l: &str| {
    let t = l.trim_start();
    l.starts_with(' ') && (t.starts_with("function ") || t.starts_with("method ") || t.starts_with("private function ") || t.starts_with("private method "))
  };
  let is_class = |l: &str| l.starts_with("class ") || l.starts_with("interface ") || l.starts_with("private class ") || l.starts_with("private interface ");
  for l in lines {
    let start = if level == 0 { is_class(l) || l.starts_with("import ") } else { is_class(l) || is_member(l) || l == "}" || l.starts_with("import ") };
    if start && !cur.is_empty() {
      out.push(cur.join("\n"));
      cur.clear();
    }
    cur.push(l);
    if level == 1 && (is_class(l) && l.trim_end().ends_with('{') || l == "}") {
      out.push(cur.join("\n"));
      cur.clear();
    }
  }
  if !cur.is_empty() {
    out.push(cur.join("\n"));
  }
  out
}
