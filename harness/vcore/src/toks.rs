//! An independent tokenizer for samlang source text, written from the lexical rules
//! (spec §2 and the lexer's token table). Used as an oracle: token yield comparison (C05),
//! comment extraction (C09), layout randomisation (C09/C14), token-level mutation (C05/C06).

#[derive(Clone, Copy, Debug, PartialEq, Eq, Hash)]
pub enum TokKind {
  Keyword,
  UpperId,
  LowerId,
  Int,
  Str,
  Op,
  LineComment,
  BlockComment,
  DocComment,
  Error,
}

#[derive(Clone, Debug, PartialEq, Eq)]
pub struct Tok {
  pub kind: TokKind,
  pub text: String,
  pub start: usize,
  pub end: usize,
  pub line: u32,
  /// byte column within the line (the lexer's unit)
  pub col: u32,
}

pub const KEYWORDS: &[&str] = &[
  "import", "from", "class", "interface", "val", "function", "method", "as", "private", "protected", "internal", "public", "if", "then", "else", "match", "return", "int", "string", "bool", "unit", "true", "false", "this", "self", "const", "let", "var", "type", "constructor", "destructor", "extends", "implements", "exports", "assert",
];

pub const OPS: &[&str] = &[
  "...", "::", "->", "<=", ">=", "==", "!=", "&&", "||", "_", "(", ")", "{", "}", "[", "]", "?", ";", ":", ",", ".", "|", "=", "!", "*", "/", "%", "+", "-", "<", ">",
];

impl Tok {
  pub fn is_comment(&self) -> bool {
    matches!(self.kind, TokKind::LineComment | TokKind::BlockComment | TokKind::DocComment)
  }
}

pub fn lex(src: &str) -> Vec<Tok> {
  let b = src.as_bytes();
  let mut out = Vec::new();
  let (mut i, mut line, mut col) = (0usize, 0u32, 0u32);
  let adv = |i: &mut usize, line: &mut u32, col: &mut u32, n: usize| {
    for k in 0..n {
      if b[*i + k] == b'\n' {
        *line += 1;
        *col = 0;
      } else {
        *col += 1;
      }
    }
    *i += n;
  };
  while i < b.len() {
    if b[i].is_ascii_whitespace() {
      adv(&mut i, &mut line, &mut col, 1);
      continue;
    }
    let (sl, sc) = (line, col);
    let start = i;
    // string literal: closing quote not preceded by an odd run of backslashes, no newline inside
    if b[i] == b'"' {
      let mut p = i + 1;
      let mut found = None;
      while p < b.len() {
        if b[p] == b'\n' {
          break;
        }
        if b[p] == b'"' {
          let mut esc = 0;
          let mut q = p;
          while q > i + 1 && b[q - 1] == b'\\' {
            esc += 1;
            q -= 1;
          }
          if esc % 2 == 0 {
            found = Some(p);
            break;
          }
        }
        p += 1;
      }
      if let Some(p) = found {
        let n = p + 1 - i;
        adv(&mut i, &mut line, &mut col, n);
        out.push(Tok { kind: TokKind::Str, text: src[start..i].to_string(), start, end: i, line: sl, col: sc });
        continue;
      }
    }
    if b[i] == b'/' && i + 1 < b.len() && b[i + 1] == b'/' {
      let mut p = i;
      while p < b.len() && b[p] != b'\n' {
        p += 1;
      }
      let n = p - i;
      adv(&mut i, &mut line, &mut col, n);
      out.push(Tok { kind: TokKind::LineComment, text: String::from_utf8_lossy(&b[start..i]).to_string(), start, end: i, line: sl, col: sc });
      continue;
    }
    if b[i] == b'/' && i + 1 < b.len() && b[i + 1] == b'*' {
      let mut p = i + 2;
      let mut found = None;
      while p + 1 < b.len() {
        if b[p] == b'*' && b[p + 1] == b'/' {
          found = Some(p + 2);
          break;
        }
        p += 1;
      }
      if let Some(e) = found {
        let n = e - i;
        // `/**/` is an empty block comment; `/** x */` is a doc comment
        let doc = n >= 5 && b[i + 2] == b'*';
        adv(&mut i, &mut line, &mut col, n);
        out.push(Tok { kind: if doc { TokKind::DocComment } else { TokKind::BlockComment }, text: String::from_utf8_lossy(&b[start..i]).to_string(), start, end: i, line: sl, col: sc });
        continue;
      }
    }
    // identifiers / keywords / ints
    if b[i].is_ascii_alphabetic() {
      let mut p = i;
      while p < b.len() && b[p].is_ascii_alphanumeric() {
        p += 1;
      }
      let text = &src[i..p];
      let kind = if KEYWORDS.contains(&text) { TokKind::Keyword } else if b[i].is_ascii_uppercase() { TokKind::UpperId } else { TokKind::LowerId };
      let n = p - i;
      adv(&mut i, &mut line, &mut col, n);
      out.push(Tok { kind, text: text.to_string(), start, end: i, line: sl, col: sc });
      continue;
    }
    if b[i].is_ascii_digit() {
      let mut p = i + 1;
      if b[i] != b'0' {
        while p < b.len() && b[p].is_ascii_digit() {
          p += 1;
        }
      }
      let n = p - i;
      adv(&mut i, &mut line, &mut col, n);
      out.push(Tok { kind: TokKind::Int, text: src[start..i].to_string(), start, end: i, line: sl, col: sc });
      continue;
    }
    if let Some(op) = OPS.iter().find(|op| b[i..].starts_with(op.as_bytes())) {
      let n = op.len();
      adv(&mut i, &mut line, &mut col, n);
      out.push(Tok { kind: TokKind::Op, text: op.to_string(), start, end: i, line: sl, col: sc });
      continue;
    }
    // invalid token: everything up to the next ASCII whitespace
    let mut p = i;
    while p < b.len() && !b[p].is_ascii_whitespace() {
      p += 1;
    }
    let n = p - i;
    adv(&mut i, &mut line, &mut col, n);
    out.push(Tok { kind: TokKind::Error, text: String::from_utf8_lossy(&b[start..i]).to_string(), start, end: i, line: sl, col: sc });
  }
  out
}

/// The comment text as the repo's lexer normalises it (used to compare comments before/after formatting).
pub fn normalised_comment_text(t: &Tok) -> String {
  fn post(block: &str) -> String {
    block
      .split('\n')
      .map(|line| {
        let l = line.trim_start();
        if let Some(r) = l.strip_prefix('*') { r.trim().to_string() } else { l.trim_end().to_string() }
      })
      .filter(|l| !l.is_empty())
      .collect::<Vec<_>>()
      .join(" ")
  }
  match t.kind {
    TokKind::LineComment => t.text[2..].trim().to_string(),
    TokKind::BlockComment => post(&t.text[2..t.text.len() - 2]),
    TokKind::DocComment => post(&t.text[3..t.text.len() - 2]),
    _ => String::new(),
  }
}
