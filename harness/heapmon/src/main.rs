//! Small driver sized for Miri / ASan / valgrind: `heapmon_run <seed0> <nseq> <nops>`.
//! Prints one line per finding and a summary; exit 1 if any finding.
use heapmon::*;
fn main() {
  let a: Vec<String> = std::env::args().collect();
  let seed0: u64 = a.get(1).and_then(|s| s.parse().ok()).unwrap_or(1);
  let nseq: u64 = a.get(2).and_then(|s| s.parse().ok()).unwrap_or(4);
  let nops: usize = a.get(3).and_then(|s| s.parse().ok()).unwrap_or(60);
  // silence the expected "Dereferencing deallocated string" panics of liveness probes
  std::panic::set_hook(Box::new(|_| {}));
  let mut bad = 0;
  let mut tot = SeqStats::default();
  for k in 0..nseq {
    let prof = Profile { n_ops: nops, pool_limit: 6 + (k as usize % 11), check_invariants_every: 7 };
    let (ops, f, st) = run_seeded(seed0.wrapping_mul(1_000_003).wrapping_add(k), &prof);
    tot.ops += st.ops;
    tot.reclaimed_observed += st.reclaimed_observed;
    tot.realloc_after_reclaim += st.realloc_after_reclaim;
    tot.effective_sweeps += st.effective_sweeps;
    tot.reads_ok += st.reads_ok;
    for x in &f {
      bad += 1;
      println!("FINDING seq={k} op={} sig={} {}", x.op_index, x.signature, x.what);
    }
    if let Some(first) = f.first() {
      let min = minimise(&ops, &first.signature, 7);
      println!("minimised sequence for {}:\n{}", first.signature, render_ops(&min));
    }
  }
  println!(
    "SUMMARY sequences={nseq} ops={} reclaimed_observed={} realloc_after_reclaim={} effective_sweeps={} reads_ok={} findings={bad}",
    tot.ops, tot.reclaimed_observed, tot.realloc_after_reclaim, tot.effective_sweeps, tot.reads_ok
  );
  if bad > 0 {
    std::process::exit(1);
  }
}
