//! Shadow-model monitor for the string-interning heap (property C17).
//! Depends only on samlang-heap so that it is cheap to run under Miri / ASan / valgrind.
pub mod rng;

use rng::Rng;
use samlang_heap::{Heap, ModuleReference, PStr};

use std::collections::HashMap;
use std::panic::{AssertUnwindSafe, catch_unwind};

#[derive(Clone, Debug)]
pub enum Op {
  /// alloc_string(pool[i])
  Alloc(usize),
  /// alloc_str_for_test(leaked pool[i])  (permanent generation)
  AllocStatic(usize),
  /// alloc_string of each part, then alloc_module_reference(parts)
  ModRef(Vec<usize>),
  /// alloc_module_reference_from_string_vec
  ModRefFromStrings(Vec<usize>),
  AllocTemp,
  /// create_temp_counter, n allocations through it, sync_temp_counter
  TempCounter(usize),
  AddUnmarked(usize),
  PopUnmarked,
  /// mark(handle #i of the handle log)
  Mark(usize),
  /// mark every handle whose string is pool[i]
  MarkAllOf(usize),
  Sweep(SweepK),
  /// read back handle #i
  Read(usize),
  /// compare handles #i and #j with ==, Ord, Hash
  Compare(usize, usize),
  /// full audit: read back every handle, pairwise injectivity, invariant hook
  Audit,
}

#[derive(Clone, Copy, Debug)]
pub enum SweepK {
  Abs(usize),
  /// table length + delta
  Len(i64),
}

#[derive(Clone, Debug)]
pub struct Finding {
  pub signature: String,
  pub what: String,
  pub op_index: usize,
}

#[derive(Default, Clone, Debug)]
pub struct SeqStats {
  pub ops: usize,
  pub handles: usize,
  pub heap_handles: usize,
  pub reads_ok: u64,
  pub reads_dead: u64,
  pub reclaimed_observed: u64,
  pub realloc_after_reclaim: u64,
  pub effective_sweeps: u64,
  pub noop_sweeps: u64,
  pub wraps: u64,
  pub promotions: u64,
  pub compares: u64,
  pub audits: u64,
  pub max_slots: usize,
  pub max_deallocated: usize,
  pub module_refs: usize,
  pub hook_calls: u64,
}

struct Handle {
  p: PStr,
  s: String,
  heap_resident: bool,
}

/// Model state per slot (= per distinct heap-resident PStr value); all handles with the same
/// PStr share it, because alloc of an already interned string returns the existing slot
/// without marking it.
#[derive(Clone, Debug)]
struct SlotModel {
  permanent: bool,
  /// a mark was applied while alive, and `sweeps_since_mark` effective sweep calls happened since
  marked: bool,
  sweeps_since_mark: u32,
  /// effective sweep calls (with k > 0) since the slot was created
  sweeps_since_alloc: u32,
  seen_dead: bool,
  /// a mark was applied and no sweep window has covered this slot since (needs the slot id and
  /// the cursor, both read through the verification hook; false when the hook is not compiled in)
  marked_since_pass: bool,
}

impl SlotModel {
  /// cursor-free lower bound on liveness: permanent, or marked with at most one effective sweep
  /// call since (one call passes over a slot at most once and only clears the mark), or never
  /// exposed to an effective sweep at all.
  fn must_live(&self) -> Option<&'static str> {
    if self.permanent {
      Some("permanent / module-reference part")
    } else if self.sweeps_since_alloc == 0 {
      Some("never exposed to an effective sweep")
    } else if self.marked && self.sweeps_since_mark <= 1 {
      Some("marked, with at most one effective sweep call since")
    } else if self.marked_since_pass {
      Some("marked since the sweeper last passed over its slot")
    } else {
      None
    }
  }
}

pub fn string_pool() -> Vec<String> {
  let mut v: Vec<String> = vec![
    "".into(),
    "a".into(),
    "fifteen_bytes__".into(),        // 15 bytes: inline
    "sixteen_bytes___".into(),       // 16 bytes: heap
    "seventeen_bytes__".into(),      // 17
    "ééééééé_".into(),               // 7*2+1 = 15 bytes: inline, multi-byte
    "éééééééé".into(),               // 16 bytes: heap, multi-byte
    "aaaaaaaaaaaaaa€".into(),        // 14 + 3 = 17 bytes, char straddling byte 15
    "aaaaaaaaaaaa€".into(),          // 12 + 3 = 15 bytes ending exactly at 15
    "aaaaaaaaaaaaa€".into(),         // 13 + 3 = 16
    "a_really_long_identifier_name_that_goes_on_and_on_0123456789".into(),
    "another_long_name_0000000000".into(),
    "another_long_name_0000000001".into(),
    "_t12345678901234567".into(),
    "module_part_long_name_A".into(),
    "module_part_long_name_B".into(),
  ];
  v.push("x".repeat(4096));
  v
}

pub struct Profile {
  pub n_ops: usize,
  /// how many pool strings to use (few = frequent re-interning)
  pub pool_limit: usize,
  pub check_invariants_every: usize,
}

pub fn gen_ops(rng: &mut Rng, prof: &Profile) -> Vec<Op> {
  let pool_n = prof.pool_limit;
  let mut ops = Vec::with_capacity(prof.n_ops);
  let mut handles = 0usize;
  let mut mods = 3usize; // root, dummy, std.tuples exist
  for _ in 0..prof.n_ops {
    let r = rng.below(100);
    let op = match r {
      0..=27 => {
        handles += 1;
        Op::Alloc(rng.below(pool_n))
      }
      28..=31 => {
        handles += 1;
        Op::AllocStatic(rng.below(pool_n))
      }
      32..=35 => {
        let n = 1 + rng.below(3);
        let parts: Vec<usize> = (0..n).map(|_| rng.below(pool_n)).collect();
        handles += n;
        mods += 1;
        if rng.bool() { Op::ModRef(parts) } else { Op::ModRefFromStrings(parts) }
      }
      36..=38 => Op::AllocTemp,
      39..=40 => Op::TempCounter(rng.below(4)),
      41..=46 => Op::AddUnmarked(rng.below(mods)),
      47..=54 => Op::PopUnmarked,
      55..=66 if handles > 0 => Op::Mark(rng.below(handles)),
      67..=69 => Op::MarkAllOf(rng.below(pool_n)),
      70..=84 => Op::Sweep(match rng.below(9) {
        0 => SweepK::Abs(0),
        1 => SweepK::Abs(1),
        2 => SweepK::Abs(2),
        3 => SweepK::Len(-1),
        4 => SweepK::Len(0),
        5 => SweepK::Len(1),
        6 => SweepK::Abs(10_000),
        7 => SweepK::Abs(3 + rng.below(5)),
        _ => SweepK::Abs(usize::MAX / 4),
      }),
      85..=92 if handles > 0 => Op::Read(rng.below(handles)),
      93..=97 if handles > 1 => Op::Compare(rng.below(handles), rng.below(handles)),
      _ => Op::Audit,
    };
    ops.push(op);
  }
  ops.push(Op::Audit);
  ops
}

pub fn render_ops(ops: &[Op]) -> String {
  let pool = string_pool();
  let mut s = String::new();
  for (i, o) in ops.iter().enumerate() {
    let line = match o {
      Op::Alloc(k) => format!("alloc_string({:?})", short(&pool[*k])),
      Op::AllocStatic(k) => format!("alloc_str_for_test({:?})", short(&pool[*k])),
      Op::ModRef(p) => format!("alloc_module_reference(alloc_string each of {:?})", p.iter().map(|k| short(&pool[*k])).collect::<Vec<_>>()),
      Op::ModRefFromStrings(p) => format!("alloc_module_reference_from_string_vec({:?})", p.iter().map(|k| short(&pool[*k])).collect::<Vec<_>>()),
      Op::AllocTemp => "alloc_temp_str()".to_string(),
      Op::TempCounter(n) => format!("create_temp_counter; {n} x alloc_temp_str; sync_temp_counter"),
      Op::AddUnmarked(m) => format!("add_unmarked_module_reference(#{m})"),
      Op::PopUnmarked => "pop_unmarked_module_reference()".to_string(),
      Op::Mark(h) => format!("mark(handle#{h})"),
      Op::MarkAllOf(k) => format!("mark(all handles of {:?})", short(&pool[*k])),
      Op::Sweep(k) => format!("sweep({k:?})"),
      Op::Read(h) => format!("as_str(handle#{h})"),
      Op::Compare(a, b) => format!("compare(handle#{a}, handle#{b})"),
      Op::Audit => "audit".to_string(),
    };
    s.push_str(&format!("{i}: {line}\n"));
  }
  s
}

fn short(s: &str) -> String {
  if s.len() > 40 { format!("{}..[{} bytes]", &s[..s.char_indices().nth(20).map(|x| x.0).unwrap_or(s.len())], s.len()) } else { s.to_string() }
}

fn try_read(heap: &Heap, p: PStr) -> Result<String, ()> {
  catch_unwind(AssertUnwindSafe(|| p.as_str(heap).to_string())).map_err(|_| ())
}

fn hash_of(p: &PStr) -> u64 {
  use std::hash::{Hash, Hasher};
  let mut h = std::collections::hash_map::DefaultHasher::new();
  p.hash(&mut h);
  h.finish()
}

/// Execute an op sequence against the real heap with the shadow model watching.
pub fn run_ops(ops: &[Op], check_every: usize) -> (Vec<Finding>, SeqStats) {
  let pool = string_pool();
  let statics: Vec<&'static str> = pool.iter().map(|s| &*Box::leak(s.clone().into_boxed_str())).collect();
  let mut m = Monitor {
    heap: Heap::new(),
    handles: Vec::new(),
    slots: HashMap::new(),
    findings: Vec::new(),
    st: SeqStats::default(),
    dead_strings: Default::default(),
    permanent_strings: Default::default(),
  };
  let mut mods: Vec<(ModuleReference, Vec<String>)> = vec![
    (ModuleReference::ROOT, vec![]),
    (ModuleReference::DUMMY, vec!["DUMMY".into()]),
    (ModuleReference::STD_TUPLES, vec!["std".into(), "tuples".into()]),
  ];
  let mut unmarked_model: std::collections::HashSet<usize> = Default::default();

  for (i, op) in ops.iter().enumerate() {
    m.st.ops += 1;
    match op {
      Op::Alloc(k) => {
        let s = &pool[*k];
        let p = m.heap.alloc_string(s.clone());
        m.new_handle(p, s, false, i);
      }
      Op::AllocStatic(k) => {
        let s = statics[*k];
        let p = m.heap.alloc_str_for_test(s);
        m.new_handle(p, s, true, i);
      }
      Op::ModRef(parts) | Op::ModRefFromStrings(parts) => {
        let strs: Vec<String> = parts.iter().map(|k| pool[*k].clone()).collect();
        let mr = if matches!(op, Op::ModRef(_)) {
          let ps: Vec<PStr> = strs.iter().map(|s| m.heap.alloc_string(s.clone())).collect();
          for (p, s) in ps.iter().zip(strs.iter()) {
            m.new_handle(*p, s, false, i);
          }
          let mr = m.heap.alloc_module_reference(ps.clone());
          for p in &ps {
            m.make_permanent(*p);
          }
          mr
        } else {
          m.heap.alloc_module_reference_from_string_vec(strs.clone())
        };
        match mods.iter().position(|(_, p)| *p == strs) {
          Some(ix) => {
            if mods[ix].0 != mr {
              m.fail(i, "modref-not-interned", format!("module reference for {:?} allocated twice with different ids", shorts(&strs)));
            }
          }
          None => {
            if mods.iter().any(|(mm, _)| *mm == mr) {
              m.fail(i, "modref-collision", format!("module reference for new parts {:?} collides with an existing one", shorts(&strs)));
            }
            mods.push((mr, strs.clone()));
          }
        }
        let heap = &m.heap;
        let got = catch_unwind(AssertUnwindSafe(|| mr.get_parts(heap).iter().map(|p| (*p, p.as_str(heap).to_string())).collect::<Vec<_>>()));
        match got {
          Ok(g) => {
            let gs: Vec<String> = g.iter().map(|x| x.1.clone()).collect();
            if gs != strs {
              m.fail(i, "modref-parts-mismatch", format!("module reference parts read back {:?}, expected {:?}", shorts(&gs), shorts(&strs)));
            }
            // the parts are now permanent: register them as handles of the permanent generation
            for (p, s) in g {
              m.new_handle(p, &s, true, i);
            }
          }
          Err(_) => m.fail(i, "modref-parts-unreadable", format!("module reference parts of {:?} cannot be read", shorts(&strs))),
        }
        m.st.module_refs = mods.len();
      }
      Op::AllocTemp => {
        let p = m.heap.alloc_temp_str();
        match try_read(&m.heap, p) {
          Ok(s) if s.starts_with("_t") && s.len() > 2 && s[2..].chars().all(|c| c.is_ascii_digit()) => {}
          Ok(s) => m.fail(i, "temp-str-shape", format!("alloc_temp_str returned {:?}", s)),
          Err(()) => m.fail(i, "temp-str-unreadable", "alloc_temp_str returned an unreadable handle".into()),
        }
      }
      Op::TempCounter(n) => {
        let c = m.heap.create_temp_counter();
        let mut names = Vec::new();
        for _ in 0..*n {
          names.push(c.alloc_temp_str());
        }
        m.heap.sync_temp_counter(&c);
        let p = m.heap.alloc_temp_str();
        if names.contains(&p) {
          m.fail(i, "temp-counter-collision", "alloc_temp_str after sync_temp_counter reused a name handed out by the counter".into());
        }
      }
      Op::AddUnmarked(k) => {
        let ix = *k % mods.len();
        m.heap.add_unmarked_module_reference(mods[ix].0);
        unmarked_model.insert(ix);
      }
      Op::PopUnmarked => match m.heap.pop_unmarked_module_reference() {
        None => {
          if !unmarked_model.is_empty() {
            m.fail(i, "pop-unmarked-lost", format!("pop_unmarked_module_reference returned None with {} modules pending", unmarked_model.len()));
          }
        }
        Some(mr) => match mods.iter().position(|(mm, _)| *mm == mr) {
          Some(ix) if unmarked_model.remove(&ix) => {}
          _ => m.fail(i, "pop-unmarked-phantom", "pop_unmarked_module_reference returned a module that was not pending".into()),
        },
      },
      Op::Mark(h) => {
        if !m.handles.is_empty() {
          let p = m.handles[*h % m.handles.len()].p;
          m.mark(p);
        }
      }
      Op::MarkAllOf(k) => {
        let s = &pool[*k];
        let ps: Vec<PStr> = m.handles.iter().filter(|h| h.s == *s).map(|h| h.p).collect();
        for p in ps {
          m.mark(p);
        }
      }
      Op::Sweep(k) => {
        let len_now = slots(&m.heap);
        let k = match k {
          SweepK::Abs(k) => *k,
          SweepK::Len(d) => (len_now as i64 + d).max(0) as usize,
        };
        let effective = unmarked_model.is_empty();
        // the window this call passes over: [cursor, cursor + k) cut at the end of the table
        #[cfg(samlang_verif)]
        let window = m.heap.verif_check_invariants().ok().map(|st| (st.sweep_index, st.sweep_index.saturating_add(k).min(st.slots)));
        m.heap.sweep(k);
        #[cfg(samlang_verif)]
        if let (true, Some((from, to))) = (effective, window) {
          // every modelled slot inside the window was passed: a mark protects it this once
          let passed: Vec<PStr> = m.slots.keys().copied().filter(|p| p.verif_heap_id().map(|id| (id as usize) >= from && (id as usize) < to).unwrap_or(false)).collect();
          for p in passed {
            let protected = m.slots.get(&p).map(|sm| sm.marked_since_pass && !sm.seen_dead && !sm.permanent).unwrap_or(false);
            if protected && try_read(&m.heap, p).is_err() {
              let what = format!("slot {:?} was marked since the sweeper last passed over it, sweep({k}) over [{from}, {to}) reclaimed it", p.verif_heap_id());
              m.fail(i, "live-string-reclaimed:marked-since-last-pass", what);
            }
            if let Some(sm) = m.slots.get_mut(&p) {
              sm.marked_since_pass = false;
            }
          }
          // the cursor itself
          if let Ok(st) = m.heap.verif_check_invariants() {
            let want = if from.saturating_add(k) >= st.slots { 0 } else { from + k };
            if st.sweep_index != want {
              m.fail(i, "sweep-cursor", format!("after sweep({k}) from cursor {from} over {} slots the cursor is {} (expected {want})", st.slots, st.sweep_index));
            }
          }
        }
        if effective {
          m.st.effective_sweeps += 1;
          if k >= len_now {
            m.st.wraps += 1;
          }
          if k > 0 {
            for sm in m.slots.values_mut() {
              sm.sweeps_since_alloc = sm.sweeps_since_alloc.saturating_add(1);
              sm.sweeps_since_mark = sm.sweeps_since_mark.saturating_add(1);
            }
          }
        } else {
          m.st.noop_sweeps += 1;
        }
      }
      Op::Read(h) => {
        if !m.handles.is_empty() {
          m.check_handle(*h % m.handles.len(), i);
        }
      }
      Op::Compare(a, b) => {
        if !m.handles.is_empty() {
          let n = m.handles.len();
          m.compare(*a % n, *b % n, i);
        }
      }
      Op::Audit => {
        m.st.audits += 1;
        for ix in 0..m.handles.len() {
          m.check_handle(ix, i);
        }
        let n = m.handles.len();
        let step = (n / 60).max(1);
        let mut a = 0;
        while a < n {
          let mut b = a;
          while b < n {
            m.compare(a, b, i);
            b += step;
          }
          a += step;
        }
        m.invariant_hook(i);
      }
    }
    if check_every > 0 && i % check_every == 0 {
      m.invariant_hook(i);
    }
    if m.findings.len() > 20 {
      break;
    }
  }
  m.st.handles = m.handles.len();
  m.st.heap_handles = m.handles.iter().filter(|h| h.heap_resident).count();
  (m.findings, m.st)
}

fn shorts(v: &[String]) -> Vec<String> {
  v.iter().map(|s| short(s)).collect()
}

struct Monitor {
  heap: Heap,
  handles: Vec<Handle>,
  slots: HashMap<PStr, SlotModel>,
  findings: Vec<Finding>,
  st: SeqStats,
  dead_strings: std::collections::HashSet<String>,
  permanent_strings: std::collections::HashSet<String>,
}

impl Monitor {
  fn fail(&mut self, i: usize, sig: &str, what: String) {
    self.findings.push(Finding { signature: sig.to_string(), what, op_index: i });
  }

  fn new_handle(&mut self, p: PStr, s: &str, permanent: bool, i: usize) {
    let heap_resident = s.len() > 15;
    match try_read(&self.heap, p) {
      Ok(got) if got == s => {}
      Ok(got) => self.fail(i, "readback-mismatch-at-alloc", format!("alloc of {:?} returned a handle reading {:?}", short(s), short(&got))),
      Err(()) => self.fail(i, "fresh-handle-unreadable", format!("alloc of {:?} returned a handle that cannot be read (deallocated slot)", short(s))),
    }
    if heap_resident {
      let known_permanent = self.permanent_strings.contains(s);
      let was_dead = self.slots.get(&p).map(|sm| sm.seen_dead).unwrap_or(false);
      if was_dead {
        // a slot id is never reused: getting a handle equal to a dead one is the
        // "re-allocating a reclaimed string yields a fresh handle" clause failing
        self.fail(i, "realloc-returned-dead-slot", format!("alloc of {:?} returned the slot that was already reclaimed", short(s)));
      }
      match self.slots.get_mut(&p) {
        Some(sm) => {
          if permanent {
            sm.permanent = true;
          }
        }
        None => {
          if self.dead_strings.remove(s) {
            self.st.realloc_after_reclaim += 1;
          }
          self.slots.insert(p, SlotModel { permanent: permanent || known_permanent, marked: false, sweeps_since_mark: 0, sweeps_since_alloc: 0, seen_dead: false, marked_since_pass: false });
        }
      }
      if permanent && self.permanent_strings.insert(s.to_string()) {
        self.st.promotions += 1;
      }
      if permanent {
        // one interned slot per live string: every live slot of this string is the same slot
        self.make_permanent(p);
      }
    }
    self.handles.push(Handle { p, s: s.to_string(), heap_resident });
  }

  fn make_permanent(&mut self, p: PStr) {
    if let Some(sm) = self.slots.get_mut(&p) {
      if !sm.seen_dead && try_read(&self.heap, p).is_ok() {
        sm.permanent = true;
      }
    }
    if let Some(h) = self.handles.iter().find(|h| h.p == p) {
      if h.heap_resident {
        self.permanent_strings.insert(h.s.clone());
      }
    }
  }

  fn mark(&mut self, p: PStr) {
    self.heap.mark(p);
    let alive = try_read(&self.heap, p).is_ok();
    if let Some(sm) = self.slots.get_mut(&p) {
      if alive && !sm.seen_dead {
        sm.marked = true;
        sm.sweeps_since_mark = 0;
        sm.marked_since_pass = cfg!(samlang_verif);
      }
    }
  }

  fn check_handle(&mut self, ix: usize, i: usize) {
    let (p, s, heap_resident) = {
      let h = &self.handles[ix];
      (h.p, h.s.clone(), h.heap_resident)
    };
    let must = if !heap_resident { Some("inline") } else { self.slots.get(&p).and_then(|sm| sm.must_live()) };
    match try_read(&self.heap, p) {
      Ok(got) => {
        self.st.reads_ok += 1;
        if got != s {
          self.fail(i, "readback-mismatch", format!("handle#{ix} created from {:?} now reads {:?}", short(&s), short(&got)));
        }
        if heap_resident && self.slots.get(&p).map(|sm| sm.seen_dead).unwrap_or(false) {
          self.fail(i, "resurrected-handle", format!("handle#{ix} ({:?}) was unreadable earlier and is readable again", short(&s)));
        }
      }
      Err(()) => {
        self.st.reads_dead += 1;
        if let Some(why) = must {
          self.fail(i, &format!("live-string-reclaimed:{}", why.split([' ', ',']).next().unwrap_or("")), format!("handle#{ix} ({:?}) must be live ({why}) but its slot is deallocated", short(&s)));
        }
        if let Some(sm) = self.slots.get_mut(&p) {
          if !sm.seen_dead {
            sm.seen_dead = true;
            self.st.reclaimed_observed += 1;
            self.dead_strings.insert(s);
          }
        }
      }
    }
  }

  fn compare(&mut self, a: usize, b: usize, i: usize) {
    self.st.compares += 1;
    let (pa, pb) = (self.handles[a].p, self.handles[b].p);
    let (ra, rb) = (try_read(&self.heap, pa), try_read(&self.heap, pb));
    let eq = pa == pb;
    let ord = pa.cmp(&pb);
    if (ord == std::cmp::Ordering::Equal) != eq {
      self.fail(i, "ord-eq-inconsistent", format!("handle#{a} vs handle#{b}: == is {eq} but cmp is {ord:?}"));
    }
    if ord != pb.cmp(&pa).reverse() {
      self.fail(i, "ord-antisymmetry", format!("handle#{a} vs handle#{b}: cmp is not antisymmetric"));
    }
    if eq && hash_of(&pa) != hash_of(&pb) {
      self.fail(i, "hash-eq-inconsistent", format!("handle#{a} == handle#{b} but hashes differ"));
    }
    if let (Ok(sa), Ok(sb)) = (ra, rb) {
      if eq && sa != sb {
        self.fail(i, "equal-handles-different-strings", format!("handle#{a} == handle#{b} but strings are {:?} / {:?}", short(&sa), short(&sb)));
      }
      if !eq && sa == sb {
        self.fail(i, "same-string-unequal-handles", format!("two live handles (#{a}, #{b}) of {:?} are unequal", short(&sa)));
      }
    }
  }

  #[cfg(samlang_verif)]
  fn invariant_hook(&mut self, i: usize) {
    match self.heap.verif_check_invariants() {
      Ok(s) => {
        self.st.max_slots = self.st.max_slots.max(s.slots);
        self.st.max_deallocated = self.st.max_deallocated.max(s.deallocated);
        self.st.hook_calls += 1;
      }
      Err(e) => self.fail(i, "heap-invariant", format!("heap invariant hook: {e}")),
    }
  }
  #[cfg(not(samlang_verif))]
  fn invariant_hook(&mut self, _i: usize) {}
}

fn slots(heap: &Heap) -> usize {
  // "Total slots: N. ..."
  heap.stat().split(|c: char| !c.is_ascii_digit()).find(|s| !s.is_empty()).and_then(|s| s.parse().ok()).unwrap_or(0)
}

/// convenience: one seeded sequence
pub fn run_seeded(seed: u64, prof: &Profile) -> (Vec<Op>, Vec<Finding>, SeqStats) {
  let mut rng = Rng::new(seed);
  let ops = gen_ops(&mut rng, prof);
  let (f, s) = run_ops(&ops, prof.check_invariants_every);
  (ops, f, s)
}

/// delta-debug an op list while the same signature persists
pub fn minimise(ops: &[Op], signature: &str, check_every: usize) -> Vec<Op> {
  let mut cur: Vec<Op> = ops.to_vec();
  let mut chunk = (cur.len() / 2).max(1);
  loop {
    let mut i = 0;
    let mut progressed = false;
    while i < cur.len() {
      let mut cand = cur.clone();
      let end = (i + chunk).min(cand.len());
      cand.drain(i..end);
      let (f, _) = run_ops(&cand, check_every);
      if f.iter().any(|x| x.signature == signature) {
        cur = cand;
        progressed = true;
      } else {
        i += chunk;
      }
    }
    if !progressed {
      if chunk == 1 {
        break;
      }
      chunk /= 2;
    }
  }
  cur
}
