'use strict';
// Node-side driver of vcore::tsrun.
//
//   node runner.js <request.json>        (or the request on stdin)
//
// request : { programs: [js text, ...], timeoutMs, maxLines, stackMb?, heapMb?, watchdogMs? }
// response: one JSON object per line on stdout (fd 1), in program order, written as soon as the
//           program has finished:
//   { end: "return" | "panic" | "vecbounds" | "stack" | "timeout" | "lines" | "syntax" | "fault"
//          | "harness",
//     lines: [...],          // what console.log printed, split on '\n'
//     msg, kind, at,         // depending on `end`
//     ms }                   // wall time of the program
// A line { fatal: "..." } reports a failure of the driver itself.
//
// The main thread only supervises. The programs run in a worker_threads Worker whose
// resourceLimits give it its stack (stackMb, default 16: the thread stack and V8's limit are sized
// together, so deep but legitimate recursion works and infinite recursion ends in a catchable
// RangeError rather than a segfault; exhausting costs ~3 ms per MB) and a capped heap (running
// out of memory kills only the worker; the supervisor attributes it to the running program and
// starts a new worker for the rest).

const { Worker, isMainThread, parentPort, workerData } = require('worker_threads');
const fs = require('fs');

function writeLine(obj) {
  const buf = Buffer.from(JSON.stringify(obj) + '\n', 'utf8');
  let off = 0;
  while (off < buf.length) {
    try {
      off += fs.writeSync(1, buf, off, buf.length - off);
    } catch (e) {
      if (e && e.code === 'EAGAIN') {
        Atomics.wait(new Int32Array(new SharedArrayBuffer(4)), 0, 0, 2);
        continue;
      }
      throw e;
    }
  }
}

// ------------------------------------------------------------------------------------------------
// worker: runs programs[start..] one after the other
// ------------------------------------------------------------------------------------------------

const VEC_MESSAGES = new Set(['Vec index out of bounds', 'pop from empty Vec']);

function safeString(v) {
  try {
    return String(v);
  } catch (_) {
    return '<unprintable>';
  }
}

/// split a V8 `stack` string into the "    at ..." frame lines
function framesOf(e, name, message) {
  let stack;
  try {
    stack = e.stack;
  } catch (_) {
    return [];
  }
  if (typeof stack !== 'string') return [];
  const header = message === '' ? name : name + ': ' + message;
  let rest = stack.startsWith(header) ? stack.slice(header.length) : stack;
  return rest.split('\n').filter((l) => /^\s+at /.test(l)).map((l) => l.trim());
}

function frameFunction(frame) {
  // "at NAME (file:line:col)"  |  "at file:line:col"
  const m = /^at (?:async )?(?:new )?([^\s(]+) \(/.exec(frame);
  return m ? m[1] : '';
}

function classify(e, state, util) {
  if (state.over) return { end: 'lines' };
  if (e !== null && (typeof e === 'object' || typeof e === 'function')) {
    let code, name, message, ctorName;
    try {
      code = e.code;
      name = e.name;
      message = e.message;
      ctorName = e.constructor && e.constructor.name;
    } catch (_) {
      return { end: 'fault', kind: 'Thrown', at: '<exotic thrown object>' };
    }
    if (code === 'ERR_SCRIPT_EXECUTION_TIMEOUT') return { end: 'timeout' };
    if (typeof name !== 'string' || name === '') name = typeof ctorName === 'string' ? ctorName : 'Object';
    if (typeof message === 'string') {
      const frames = framesOf(e, name, message);
      const top = frames.length > 0 ? frames[0] : '';
      const fn = frameFunction(top);
      if (name === 'RangeError' && message === 'Maximum call stack size exceeded') {
        return { end: 'stack' };
      }
      if (name === 'Error' && code === undefined) {
        // the only `throw Error(..)` sites of the emitted code are in the prolog:
        //   __Process$panic         : throw Error(v)
        //   __Vec$get / __Vec$set  : throw Error('Vec index out of bounds')
        //   __Vec$pop              : throw Error('pop from empty Vec')
        if (/Process\$panic$/.test(fn)) return { end: 'panic', msg: message };
        if (/_Vec\$(get|set|pop)$/.test(fn) && VEC_MESSAGES.has(message)) return { end: 'vecbounds' };
        if (fn === '') {
          // no usable stack: fall back on the message
          return VEC_MESSAGES.has(message) ? { end: 'vecbounds' } : { end: 'panic', msg: message };
        }
      }
      return { end: 'fault', kind: name, at: top === '' ? message : message + ' @ ' + top };
    }
    let shown;
    try {
      shown = util.inspect(e, { depth: 2, breakLength: Infinity });
    } catch (_) {
      shown = '<uninspectable>';
    }
    return { end: 'fault', kind: 'Thrown', at: shown };
  }
  return { end: 'fault', kind: 'Thrown', at: typeof e + ' ' + safeString(e) };
}

function syntaxInfo(e) {
  // stack of a SyntaxError raised by vm.compileFunction:
  //   prog.js:12
  //   <source line>
  //       ^^^
  //   <blank>
  //   SyntaxError: Unexpected token ':'
  let msg = safeString(e && e.message);
  try {
    const ls = String(e.stack).split('\n');
    const m = /^prog\.js:(\d+)$/.exec(ls[0]);
    if (m) {
      let col = '';
      if (ls.length > 2 && /^\s*\^+\s*$/.test(ls[2])) col = ', col ' + (ls[2].indexOf('^') + 1);
      msg += ' (line ' + m[1] + col + ')';
    }
  } catch (_) {}
  return msg;
}

const INTRINSICS = ['console', 'Math', 'Number', 'String', 'Error', 'parseInt'];
let BOOT = null;

function runProgram(code, timeoutMs, maxLines, vm, util) {
  if (BOOT === null) {
    BOOT = new vm.Script('__verif_main(' + INTRINSICS.join(', ') + ');', { filename: 'verif-boot.js' });
  }
  const state = { lines: [], over: false };
  const log = (...args) => {
    const text = args.length === 1 && typeof args[0] === 'string' ? args[0] : util.format(...args);
    const parts = text.split('\n');
    for (let k = 0; k < parts.length; k++) {
      if (state.lines.length >= maxLines) {
        state.over = true;
        throw new Error('verif: line limit');
      }
      state.lines.push(parts[k]);
    }
  };
  const t0 = Date.now();
  let res;
  // The program is compiled as the body of a function, like node does for a CommonJS module
  // (vm.compileFunction parses `code` as a FunctionBody, so unbalanced braces cannot escape it).
  // The few globals the emitted code uses are passed as parameters: inside a vm context every
  // global lookup goes through the sandbox interceptors, which makes `Number(a < b)` and
  // `Math.floor(a / b)` about five times slower than in plain node.
  const ctx = vm.createContext({ console: { log } });
  let fn = null;
  try {
    fn = vm.compileFunction(code, INTRINSICS, { parsingContext: ctx, filename: 'prog.js' });
  } catch (e) {
    const name = e && typeof e.name === 'string' ? e.name : '';
    if (name === 'SyntaxError') res = { end: 'syntax', msg: syntaxInfo(e) };
    else res = classify(e, state, util);
  }
  if (fn !== null) {
    // a fresh context has its own copy of every ECMAScript builtin (Math, Number, String, Error,
    // parseInt, Array ...); the only host object the emitted code needs is console.log
    Object.defineProperty(ctx, '__verif_main', { value: fn, enumerable: false });
    try {
      BOOT.runInContext(ctx, { timeout: timeoutMs });
      res = { end: 'return' };
    } catch (e) {
      try {
        res = classify(e, state, util);
      } catch (e2) {
        res = { end: 'harness', msg: 'runner.js classify failed: ' + safeString(e2) };
      }
    }
  }
  res.lines = state.lines;
  res.ms = Date.now() - t0;
  return res;
}

function workerMain() {
  const vm = require('vm');
  const util = require('util');
  const { programs, start, timeoutMs, maxLines } = workerData;
  for (let i = start; i < programs.length; i++) {
    let res;
    try {
      res = runProgram(programs[i], timeoutMs, maxLines, vm, util);
    } catch (e) {
      res = { end: 'harness', msg: 'runner.js: ' + safeString(e), lines: [], ms: 0 };
    }
    parentPort.postMessage({ done: i, res });
  }
}

// ------------------------------------------------------------------------------------------------
// supervisor
// ------------------------------------------------------------------------------------------------

function readRequest() {
  const path = process.argv[2];
  const text = path ? fs.readFileSync(path, 'utf8') : fs.readFileSync(0, 'utf8');
  return JSON.parse(text);
}

function supervisorMain() {
  let req;
  try {
    req = readRequest();
    if (!Array.isArray(req.programs)) throw new Error('programs is not an array');
  } catch (e) {
    writeLine({ fatal: 'bad request: ' + safeString(e) });
    process.exit(2);
  }
  const programs = req.programs.map((p) => String(p));
  const timeoutMs = Math.max(1, req.timeoutMs | 0);
  const maxLines = req.maxLines === undefined ? 100000 : Math.max(0, Number(req.maxLines));
  const stackMb = req.stackMb || 16;
  const heapMb = req.heapMb || 512;
  // backstop for things the vm timeout cannot interrupt
  const watchdogMs = req.watchdogMs ? Math.max(1, req.watchdogMs | 0) : timeoutMs * 2 + 5000;

  let next = 0; // index of the first program without an answer
  const launch = () => {
    if (next >= programs.length) {
      process.exit(0);
    }
    let settled = false;
    let timer = null;
    const w = new Worker(__filename, {
      workerData: { programs, start: next, timeoutMs, maxLines },
      resourceLimits: { stackSizeMb: stackMb, maxOldGenerationSizeMb: heapMb },
      stdout: false,
      stderr: false,
    });
    const arm = () => {
      if (timer !== null) clearTimeout(timer);
      timer = setTimeout(() => {
        if (settled) return;
        settled = true;
        w.terminate().then(() => {
          writeLine({ end: 'timeout', lines: [], ms: watchdogMs, msg: 'worker watchdog' });
          next += 1;
          launch();
        });
      }, watchdogMs);
    };
    const fail = (why) => {
      if (settled) return;
      settled = true;
      if (timer !== null) clearTimeout(timer);
      if (next < programs.length) {
        writeLine({ end: 'harness', lines: [], ms: 0, msg: 'node worker died: ' + why });
        next += 1;
      }
      w.terminate().then(launch, launch);
    };
    arm();
    w.on('message', (m) => {
      if (settled) return;
      if (m && m.done === next) {
        // results are written by the supervisor only, so a late answer can never interleave
        // with a verdict the supervisor has already given for the same program
        writeLine(m.res);
        next = m.done + 1;
        arm();
      }
    });
    w.on('error', (e) => fail(safeString(e && e.code ? e.code + ' ' + e.message : e)));
    w.on('exit', (code) => {
      if (settled) return;
      if (next >= programs.length) {
        settled = true;
        if (timer !== null) clearTimeout(timer);
        process.exit(0);
      }
      fail('exit code ' + code);
    });
  };
  launch();
}

if (isMainThread) supervisorMain();
else workerMain();
