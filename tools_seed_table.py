#!/usr/bin/env python3
"""Renders the seeded-change table of DESIGN.md §8 from seeded/*/meta.json, seeded/HISTORY.json
(what happened when each change was first tried, and what was strengthened) and seeded/MATRIX.tsv
(the last run of every seed against its own property's quick check)."""
import json, os, re, sys
root = '/verif/seeded'
hist = json.load(open(f'{root}/HISTORY.json'))
matrix = {}
if os.path.exists(f'{root}/MATRIX.tsv'):
    for l in open(f'{root}/MATRIX.tsv').read().splitlines()[1:]:
        f = l.split('\t')
        if len(f) >= 5:
            matrix[f[0]] = f
rows = []
for n in sorted(x for x in os.listdir(root) if re.fullmatch(r'C\d\d[a-z]', x)):
    m = json.load(open(f'{root}/{n}/meta.json'))
    h = hist.get(n, {})
    summ = m['summary'].replace('|', '\\|')
    if len(summ) > 230:
        summ = summ[:227] + '…'
    fin = matrix.get(n)
    final = '—'
    if fin:
        final = ('caught' if fin[2] == '1' else f'exit {fin[2]}') + (f' (`{fin[4][:70]}`)' if fin[4] else '')
    rows.append(f"| {n} | {summ} | {h.get('first', '?')} | {h.get('strengthened', '—')} | {final} |")
table = "| seed | change (author's summary) | first try | strengthening | last matrix run (own check, quick) |\n|---|---|---|---|---|\n" + '\n'.join(rows) + '\n'
if len(sys.argv) > 1 and sys.argv[1] == '--update-design':
    d = open('/verif/DESIGN.md').read()
    a, b = d.index('<!-- seedtable:begin -->') + len('<!-- seedtable:begin -->\n'), d.index('<!-- seedtable:end -->')
    open('/verif/DESIGN.md', 'w').write(d[:a] + table + d[b:])
else:
    print(table, end='')
