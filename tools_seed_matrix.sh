#!/usr/bin/env bash
# tools_seed_matrix.sh [seed ids...]: applies every seeded change under /verif/seeded to /repo in
# turn, runs the quick check of its own property against it and reverts (never leaves /repo
# modified); prints one line per seed and writes /verif/seeded/MATRIX.tsv.
set -u
cd /verif
ids=("$@"); [ ${#ids[@]} -eq 0 ] && ids=($(ls seeded | grep -E '^C[0-9]+[a-z]$'))
out=/verif/seeded/MATRIX.tsv
[ $# -eq 0 ] && printf 'seed\tproperty\tcheck_exit\tseconds\tfirst_signature\n' > "$out"
for n in "${ids[@]}"; do
  p=${n%[a-z]}
  if [ -n "$(git -C /repo status --porcelain)" ]; then echo "/repo is not clean"; exit 3; fi
  git -C /repo apply "/verif/seeded/$n/patch.diff" || { echo "$n: patch does not apply"; printf '%s\t%s\tpatch-does-not-apply\t0\t\n' "$n" "$p" >> "$out"; continue; }
  s=$(date +%s)
  log=$(VERIF_SEED="${VERIF_SEED:-1}" ./check "$p" quick 2>&1); code=$?
  e=$(( $(date +%s) - s ))
  git -C /repo checkout -- . ; git -C /repo clean -fdq
  sig=$(echo "$log" | grep -m1 '^  signature:' | sed 's/^  signature: //' | cut -c1-160)
  printf '%s\t%s\t%s\t%s\t%s\n' "$n" "$p" "$code" "$e" "$sig" | tee -a "$out"
done
