#!/bin/bash
# tools_keep_seed.sh <name>: copy a confirmed seeded change from /tmp/seed_<name>/out to /verif/seeded/<name>/
set -eu
n="$1"; src=/tmp/seed_$n/out; dst=/verif/seeded/$n
rm -rf "$dst"; mkdir -p "$dst"
cp "$src/patch.diff" "$dst/patch.diff"
rsync -a --exclude target --exclude '*.log' "$src/demo" "$dst/" 2>/dev/null || true
[ -d /tmp/seed_$n/demo ] && [ ! -d "$dst/demo/src" ] && rsync -a --exclude target /tmp/seed_$n/demo "$dst/"
python3 - "$n" <<'PY'
import json,sys,subprocess
n=sys.argv[1]
m=json.load(open(f'/tmp/seed_{n}/out/meta.json'))
m['seed_id']=n
m['base_commit']=subprocess.check_output(['git','-C',f'/tmp/seed_{n}/repo','rev-parse','--short','HEAD']).decode().strip()
m['confirmed']=open(f'/tmp/verify_{n}.log').read().strip().splitlines()
m['demo_note']='the demonstration was built by the author of the change in a scratch worktree; its Cargo.toml path dependencies point at /tmp/seed_%s/repo (recreate with tools_seeder_env.sh %s and git apply patch.diff)'%(n,n)
json.dump(m,open(f'/verif/seeded/{n}/meta.json','w'),indent=1)
PY
du -sh "$dst"
