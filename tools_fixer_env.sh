#!/usr/bin/env bash
# usage: tools_fixer_env.sh <name>   -> creates /tmp/fix_<name>/{repo (git worktree of /repo HEAD on branch fix_<name>), harness (copy pointing at it)}
set -eu
N="$1"; D="/tmp/fix_$N"
rm -rf "$D"; mkdir -p "$D"
git -C /repo worktree prune
git -C /repo branch -D "fix_$N" 2>/dev/null || true
git -C /repo worktree add -q "$D/repo" -b "fix_$N" HEAD
rsync -a --exclude target --exclude '.cargo' /verif/harness/ "$D/harness/"
mkdir -p "$D/harness/.cargo"; printf '[net]\noffline = true\n' > "$D/harness/.cargo/config.toml"
sed -i "s#/repo/crates#$D/repo/crates#g" "$D/harness/vcore/Cargo.toml" "$D/harness/heapmon/Cargo.toml"
cat > "$D/run_file.sh" <<EOS
#!/usr/bin/env bash
# usage: run_file.sh file.sam   -> reference interpreter vs compiled wasm vs compiled TS, using the compiler in $D/repo
cd $D/harness && VERIF_REPO=$D/repo RUSTFLAGS="--cfg samlang_verif" cargo run -q --release --offline --bin calib_gen -- file "\$1"
EOS
chmod +x "$D/run_file.sh"
echo "$D"
