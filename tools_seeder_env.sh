#!/usr/bin/env bash
# usage: tools_seeder_env.sh <name>  -> /tmp/seed_<name>/repo = git worktree of /repo HEAD (branch seed_<name>)
set -eu
N="$1"; D="/tmp/seed_$N"
rm -rf "$D"; mkdir -p "$D"
git -C /repo worktree prune
git -C /repo branch -D "seed_$N" 2>/dev/null || true
git -C /repo worktree add -q "$D/repo" -b "seed_$N" HEAD
echo "$D"
