#!/usr/bin/env bash
# Harvest helper (not a registered check): runs C09 at several seeds and prints the union of
# violation signatures with one description each, for maintaining known_findings.json.
set -u
cd "$(dirname "$0")/harness" || exit 3
RUSTFLAGS="--cfg samlang_verif" cargo build --release --offline --bin c09 >/dev/null 2>&1 || { echo build failed; exit 3; }
for spec in "$@"; do
  tier="${spec%%:*}"; seed="${spec##*:}"
  VERIF_SEED=$seed ./target/release/c09 "$tier" 2>/dev/null | grep -A2 '^VIOLATION' | grep -E 'signature:|what:' | paste - - | sed 's/^ *signature: //; s/\t *what: /\t/'
done | sort -u -k1,1 -t$'\t'
